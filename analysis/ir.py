"""IR loader, normaliser and pretty printer for the facts exported by ircx.

The exporter dumps THIR faithfully; this module collapses compiler desugarings
(await / ? / for / format_args) into first-class nodes so that rules talk about the
program the way the property text does.  Nothing here matches on source text or on
line numbers; spans are carried along only for diagnostics.
"""
import json
import os

STRIP = ('Use', 'NeverToAny')


class Program:
    def __init__(self, facts):
        self.types = facts['types']
        self.files = facts['files']
        self.items = facts['items']
        self.nonce = facts.get('nonce')
        self.bodies = {}
        self.raw_bodies = facts['bodies']
        for b in facts['bodies']:
            nb = dict(b)
            if 'body' in b:
                nb['body'] = norm(b['body'], self)
            self.bodies[b['def']] = nb
        self.adts = {a['path']: a for a in self.items['adts']}
        self.fns = {f['path']: f for f in self.items['fns']}

    def ty(self, node):
        """type string of a node ('' if unknown)"""
        t = node.get('ty') if isinstance(node, dict) else None
        if t is None:
            return ''
        return self.types[t]

    def loc(self, node):
        sp = node.get('sp') if isinstance(node, dict) else None
        if not sp:
            return '?'
        return '%s:%d' % (self.files[sp[0]], sp[1])

    def body(self, path):
        return self.bodies[path]

    def coroutine_of(self, fn_path):
        """async fn -> its coroutine closure body (the real body)"""
        c = fn_path + '::{closure#0}'
        b = self.bodies.get(fn_path)
        if b is None:
            return None
        if c in self.bodies and is_async_shell(b):
            return self.bodies[c]
        return b

    def fn_bodies(self):
        return [b for b in self.bodies.values() if 'body' in b]


def is_async_shell(b):
    """an async fn's outer body is a block whose only expression is the coroutine closure"""
    body = b.get('body')
    if not body:
        return False
    n = body
    while isinstance(n, dict) and n.get('k') == 'Block' and not n.get('stmts') and n.get('expr'):
        n = n['expr']
    return isinstance(n, dict) and n.get('k') == 'Closure'


def load(path):
    with open(path) as f:
        facts = json.load(f)
    return Program(facts)


# ----------------------------------------------------------------- helpers
def callee(n):
    """resolved callee path of a Call node (or None)"""
    if n.get('k') != 'Call':
        return None
    f = n['fun']
    if f.get('k') == 'Fn':
        return f.get('resolved') or f['path']
    return None


def callee_name(n):
    if n.get('k') != 'Call':
        return None
    f = n['fun']
    if f.get('k') == 'Fn':
        return f['name']
    return None


def callee_fn(n):
    if n.get('k') != 'Call':
        return None
    f = n['fun']
    return f if f.get('k') == 'Fn' else None


def strip(n):
    """strip Borrow/Deref/Coerce/Cast-free wrappers that do not change what is denoted"""
    while isinstance(n, dict) and n.get('k') in ('Borrow', 'Deref', 'Coerce', 'RawBorrow'):
        n = n['e']
    return n


def is_macro(n, name=None):
    sp = n.get('sp')
    if not sp or sp[3] is None:
        return False
    if name is None:
        return True
    return name in sp[3]


def children(n):
    """direct child nodes (dicts with 'k') of a node, in evaluation order"""
    k = n.get('k')
    out = []
    if k == 'Block':
        out.extend(n['stmts'])
        if 'expr' in n:
            out.append(n['expr'])
    elif k == 'Let':
        if 'init' in n:
            out.append(n['init'])
        if 'else' in n:
            out.append(n['else'])
    elif k == 'If':
        out.append(n['cond'])
        out.append(n['then'])
        if 'else' in n:
            out.append(n['else'])
    elif k == 'Match':
        out.append(n['scrut'])
        for a in n['arms']:
            if 'guard' in a:
                out.append(a['guard'])
            out.append(a['body'])
    elif k in ('Loop',):
        out.append(n['body'])
    elif k == 'For':
        out.append(n['iter'])
        out.append(n['body'])
    elif k == 'Call':
        out.append(n['fun'])
        out.extend(n['args'])
    elif k in ('Binary', 'Logical', 'Assign', 'AssignOp'):
        out.append(n['l'])
        out.append(n['r'])
    elif k == 'Index':
        out.append(n['e'])
        out.append(n['i'])
    elif k in ('Tuple', 'Array'):
        out.extend(n['es'])
    elif k == 'Adt':
        out.extend(f['e'] for f in n['fields'])
        if 'base' in n:
            out.append(n['base'])
    elif k == 'Closure':
        out.extend(n['upvars'])
    elif k == 'Format':
        out.extend(a['e'] for a in n['args'])
    elif k == 'LetExpr':
        out.append(n['e'])
    else:
        e = n.get('e')
        if isinstance(e, dict):
            out.append(e)
    return out


def walk(n):
    """pre-order traversal over all nodes"""
    stack = [n]
    while stack:
        x = stack.pop()
        yield x
        ch = children(x)
        stack.extend(reversed(ch))


def pat_binds(p):
    """all (name, varid) bound by a pattern"""
    out = []
    k = p.get('k')
    if k == 'Bind':
        out.append((p['n'], p['v']))
        if 'sub' in p:
            out.extend(pat_binds(p['sub']))
    elif k in ('Variant', 'Leaf'):
        for f in p['fields']:
            out.extend(pat_binds(f['p']))
    elif k in ('DerefPat', 'GuardPat'):
        out.extend(pat_binds(p['sub']))
    elif k == 'Or':
        for q in p['pats']:
            out.extend(pat_binds(q))
    elif k == 'SlicePat':
        for q in p['prefix'] + p['suffix']:
            out.extend(pat_binds(q))
        if 'slice' in p:
            out.extend(pat_binds(p['slice']))
    return out


# ----------------------------------------------------------------- normaliser
def decode_template(bs):
    """fmt::Arguments template bytes -> list of pieces: str | ('arg', index, spec)"""
    out = []
    i = 0
    nxt = 0
    n = len(bs)
    while i < n:
        b = bs[i]
        i += 1
        if b == 0:
            break
        if b < 0x80:
            out.append(bytes(bs[i:i + b]).decode('utf-8', 'replace'))
            i += b
        elif b == 0x80:
            ln = bs[i] | (bs[i + 1] << 8)
            i += 2
            out.append(bytes(bs[i:i + ln]).decode('utf-8', 'replace'))
            i += ln
        else:
            spec = {}
            idx = nxt
            if b & 1:
                spec['flags'] = int.from_bytes(bytes(bs[i:i + 4]), 'little')
                i += 4
            if b & 2:
                spec['width'] = bs[i] | (bs[i + 1] << 8)
                i += 2
            if b & 4:
                spec['precision'] = bs[i] | (bs[i + 1] << 8)
                i += 2
            if b & 8:
                idx = bs[i] | (bs[i + 1] << 8)
                i += 2
            out.append(('arg', idx, spec))
            nxt = idx + 1
    # merge adjacent literal pieces
    merged = []
    for p in out:
        if isinstance(p, str) and merged and isinstance(merged[-1], str):
            merged[-1] += p
        else:
            merged.append(p)
    return merged


def _find_bytes(n):
    n = strip(n)
    if n.get('k') == 'Lit' and n.get('lk') == 'bytes':
        return n['val']
    return None


def _try_format(n, prog):
    """recognise the expansion of format_args!: returns Format node or None"""
    k = n.get('k')
    if k == 'Call':
        c = callee(n) or ''
        if c.startswith('std::fmt::Arguments') or c.startswith('core::fmt::Arguments'):
            nm = n['fun']['name']
            if nm in ('from_str', 'new_const', 'from_str_nonconst'):
                a = strip(n['args'][0])
                if a.get('k') == 'Lit' and a.get('lk') == 'str':
                    return {'k': 'Format', 'pieces': [a['val']], 'args': [], 'ty': n.get('ty'), 'sp': n.get('sp')}
                if a.get('k') == 'Array':
                    ps = [strip(x) for x in a['es']]
                    if all(p.get('k') == 'Lit' for p in ps):
                        return {'k': 'Format', 'pieces': [''.join(p['val'] for p in ps)], 'args': [],
                                'ty': n.get('ty'), 'sp': n.get('sp')}
        return None
    if k != 'Block':
        return None
    # Block{ let args = (&a, &b); let args = [Argument::new_x(&*args.0),..]; Block{Arguments::new(&bytes,&args)} }
    stmts = n.get('stmts', [])
    ex = n.get('expr')
    if ex is None:
        return None
    inner = ex
    while inner.get('k') == 'Block' and not inner.get('stmts') and 'expr' in inner:
        inner = inner['expr']
    if inner.get('k') != 'Call':
        return None
    c = callee(inner) or ''
    if not (c.startswith('std::fmt::Arguments') or c.startswith('core::fmt::Arguments')):
        return None
    if inner['fun']['name'] != 'new':
        return None
    bs = _find_bytes(inner['args'][0])
    if bs is None:
        return None
    if len(stmts) != 2 or any(s.get('k') != 'Let' for s in stmts):
        return None
    tup = stmts[0].get('init')
    arr = stmts[1].get('init')
    if tup is None or arr is None:
        return None
    tup = strip(tup)
    if tup.get('k') == 'Tuple':
        vals = [x for x in tup['es']]
    else:
        vals = [tup]
    arr = strip(arr)
    if arr.get('k') != 'Array':
        return None
    fargs = []
    for a in arr['es']:
        a = strip(a)
        if a.get('k') != 'Call':
            return None
        how = a['fun']['name']  # new_display / new_debug / ...
        src = strip(a['args'][0])
        # src is Field f=<i> of Var args
        if src.get('k') == 'Field' and src['f'].isdigit():
            v = vals[int(src['f'])]
        else:
            v = vals[0] if len(vals) == 1 else src
        # drop the & that format_args adds
        if v.get('k') == 'Borrow':
            v = v['e']
        fargs.append({'how': how, 'e': v})
    pieces = decode_template(bs)
    return {'k': 'Format', 'pieces': pieces, 'args': fargs, 'ty': inner.get('ty'), 'sp': n.get('sp')}


def norm(n, prog):
    if isinstance(n, list):
        return [norm(x, prog) for x in n]
    if not isinstance(n, dict):
        return n
    k = n.get('k')
    if k in STRIP:
        return norm(n['e'], prog)
    if k == 'Coerce':
        return norm(n['e'], prog)
    # format_args! expansion (before recursing: the shape is checked on raw nodes)
    f = _try_format(_shallow_strip(n), prog) if k in ('Block', 'Call') else None
    if f is not None:
        f['args'] = [{'how': a['how'], 'e': norm(a['e'], prog)} for a in f['args']]
        if 'hid' in n:
            f['hid'] = n['hid']
        return f
    if k == 'Match':
        src = n.get('src', '')
        if src.startswith('AwaitDesugar'):
            sc = _unuse(n['scrut'])
            if sc.get('k') == 'Call' and callee_name(sc) == 'into_future':
                return _mk('Await', n, e=norm(sc['args'][0], prog))
        if src.startswith('TryDesugar'):
            sc = _unuse(n['scrut'])
            if sc.get('k') == 'Call' and callee_name(sc) == 'branch':
                return _mk('Try', n, e=norm(sc['args'][0], prog))
        if src.startswith('ForLoopDesugar'):
            r = _try_for(n, prog)
            if r is not None:
                return r
    out = {}
    for key, v in n.items():
        if key in ('sp', 'fsp', 'ty', 'hid'):
            out[key] = v
        elif isinstance(v, dict):
            out[key] = norm(v, prog) if 'k' in v else v
        elif isinstance(v, list):
            if key == 'arms':
                arms = []
                for a in v:
                    na = {'pat': a['pat'], 'body': norm(a['body'], prog), 'sp': a.get('sp')}
                    if 'guard' in a:
                        na['guard'] = norm(a['guard'], prog)
                    arms.append(na)
                out[key] = arms
            elif key == 'fields' and k == 'Adt':
                out[key] = [{'f': f['f'], 'e': norm(f['e'], prog)} for f in v]
            elif v and isinstance(v[0], dict) and 'k' in v[0]:
                out[key] = [norm(x, prog) for x in v]
            else:
                out[key] = v
        else:
            out[key] = v
    # `std::hint::must_use(x)` (format!) and `alloc::fmt::format(Format)` collapse to the Format
    if k == 'Call':
        c = callee(out)
        if c in ('std::hint::must_use', 'core::hint::must_use') and len(out['args']) == 1:
            a = _unblock(out['args'][0])
            if a.get('k') == 'Format':
                return a
        if c in ('std::fmt::format', 'alloc::fmt::format') and len(out['args']) == 1:
            a = _unblock(out['args'][0])
            if a.get('k') == 'Format':
                r = dict(a)
                r['string'] = True
                r['ty'] = out.get('ty')
                return r
    return out


def _unblock(n):
    while n.get('k') == 'Block' and not n.get('stmts') and 'expr' in n:
        n = n['expr']
    return n


def _unuse(n):
    while isinstance(n, dict) and n.get('k') in STRIP:
        n = n['e']
    return n


def _shallow_strip(n):
    return n


def _mk(kind, src, **kw):
    out = {'k': kind}
    out.update(kw)
    for key in ('ty', 'sp', 'hid'):
        if key in src:
            out[key] = src[key]
    return out


def _try_for(n, prog):
    sc = _unuse(n['scrut'])
    if not (sc.get('k') == 'Call' and callee_name(sc) == 'into_iter'):
        return None
    if len(n['arms']) != 1:
        return None
    body = _unuse(n['arms'][0]['body'])
    if body.get('k') != 'Loop':
        return None
    lb = _unuse(body['body'])
    # Loop { Block { stmts:[ Match{ next(&mut iter) { None => break, Some(pat) => body } } ] } }
    inner = lb
    m = None
    if inner.get('k') == 'Block':
        cands = list(inner.get('stmts', []))
        if 'expr' in inner:
            cands.append(inner['expr'])
        if len(cands) == 1:
            m = _unuse(cands[0])
    elif inner.get('k') == 'Match':
        m = inner
    if m is None or m.get('k') != 'Match':
        return None
    some = None
    for a in m['arms']:
        if a['pat'].get('k') == 'Variant' and a['pat'].get('variant') == 'Some':
            some = a
    if some is None:
        return None
    pat = some['pat']['fields'][0]['p']
    out = _mk('For', n, pat=pat, iter=norm(sc['args'][0], prog), body=norm(some['body'], prog))
    if 'hid' in body:
        out['hid'] = body['hid']
    return out


# ----------------------------------------------------------------- pretty printer
def short(path):
    if path is None:
        return '?'
    parts = path.split('::')
    return '::'.join(parts[-2:]) if len(parts) > 1 else path


def pp_pat(p):
    k = p.get('k')
    if k == 'Wild':
        return '_'
    if k == 'Bind':
        s = p['n']
        if 'sub' in p:
            s += ' @ ' + pp_pat(p['sub'])
        return s
    if k == 'Variant':
        fs = ', '.join((f['f'] + ': ' if not f['f'].isdigit() else '') + pp_pat(f['p']) for f in p['fields'])
        return '%s(%s)' % (p['variant'], fs) if fs else p['variant']
    if k == 'Leaf':
        fs = ', '.join((f['f'] + ': ' if not f['f'].isdigit() else '') + pp_pat(f['p']) for f in p['fields'])
        return '(%s)' % fs
    if k == 'DerefPat':
        return '&' + pp_pat(p['sub'])
    if k == 'ConstPat':
        return p['val']
    if k == 'Or':
        return ' | '.join(pp_pat(q) for q in p['pats'])
    if k == 'RangePat':
        return '<range>'
    if k == 'SlicePat':
        return '[..]'
    return '<%s>' % k


def pp(n, ind=0):
    """pseudo-Rust rendering (for humans and for replay files)"""
    pad = '    ' * ind
    k = n.get('k')
    if k == 'Block':
        lines = ['{']
        for s in n['stmts']:
            lines.append(pad + '    ' + pp(s, ind + 1) + ';')
        if 'expr' in n:
            lines.append(pad + '    ' + pp(n['expr'], ind + 1))
        lines.append(pad + '}')
        return '\n'.join(lines)
    if k == 'Let':
        s = 'let ' + pp_pat(n['pat'])
        if 'init' in n:
            s += ' = ' + pp(n['init'], ind)
        if 'else' in n:
            s += ' else ' + pp(n['else'], ind)
        return s
    if k == 'If':
        s = 'if ' + pp(n['cond'], ind) + ' ' + pp(n['then'], ind)
        if 'else' in n:
            s += ' else ' + pp(n['else'], ind)
        return s
    if k == 'LetExpr':
        return 'let ' + pp_pat(n['pat']) + ' = ' + pp(n['e'], ind)
    if k == 'Match':
        lines = ['match ' + pp(n['scrut'], ind) + ' {']
        for a in n['arms']:
            g = (' if ' + pp(a['guard'], ind + 1)) if 'guard' in a else ''
            lines.append(pad + '    ' + pp_pat(a['pat']) + g + ' => ' + pp(a['body'], ind + 1) + ',')
        lines.append(pad + '}')
        return '\n'.join(lines)
    if k == 'Loop':
        return 'loop ' + pp(n['body'], ind)
    if k == 'For':
        return 'for ' + pp_pat(n['pat']) + ' in ' + pp(n['iter'], ind) + ' ' + pp(n['body'], ind)
    if k == 'Break':
        return 'break' + ((' ' + pp(n['e'], ind)) if 'e' in n else '')
    if k == 'Continue':
        return 'continue'
    if k == 'Return':
        return 'return' + ((' ' + pp(n['e'], ind)) if 'e' in n else '')
    if k == 'Await':
        return pp(n['e'], ind) + '.await'
    if k == 'Try':
        return pp(n['e'], ind) + '?'
    if k == 'Call':
        f = n['fun']
        args = [pp(a, ind) for a in n['args']]
        if f.get('k') == 'Fn':
            if ('impl_self' in f or 'trait' in f) and args:
                return '%s.%s(%s)' % (args[0], f['name'], ', '.join(args[1:]))
            return '%s(%s)' % (short(f['path']), ', '.join(args))
        return '(%s)(%s)' % (pp(f, ind), ', '.join(args))
    if k == 'Fn':
        return short(n['path'])
    if k == 'Field':
        return pp(n['e'], ind) + '.' + n['f']
    if k == 'Index':
        return pp(n['e'], ind) + '[' + pp(n['i'], ind) + ']'
    if k in ('Deref', 'Borrow', 'RawBorrow'):
        return pp(n['e'], ind)
    if k == 'Var':
        return n['n']
    if k == 'Adt':
        nm = short(n['adt']) if n['variant'] == n['adt'].split('::')[-1] else n['adt'].split('::')[-1] + '::' + n['variant']
        fs = ', '.join((f['f'] + ': ' if not f['f'].isdigit() else '') + pp(f['e'], ind) for f in n['fields'])
        if 'base' in n:
            fs += ', ..' + pp(n['base'], ind)
        return nm + ('{' + fs + '}' if fs else '')
    if k == 'Tuple':
        return '(' + ', '.join(pp(e, ind) for e in n['es']) + ')'
    if k == 'Array':
        return '[' + ', '.join(pp(e, ind) for e in n['es']) + ']'
    if k == 'Lit':
        v = n.get('val')
        if n.get('lk') == 'bytes':
            return 'b' + repr(bytes(v))[1:]
        return repr(v) if isinstance(v, str) else str(v).lower() if isinstance(v, bool) else str(v)
    if k == 'Unary':
        return {'Not': '!', 'Neg': '-'}.get(n['op'], n['op']) + pp(n['e'], ind)
    if k in ('Binary', 'Logical'):
        ops = {'Add': '+', 'Sub': '-', 'Mul': '*', 'Div': '/', 'Rem': '%', 'Eq': '==', 'Ne': '!=', 'Lt': '<',
               'Le': '<=', 'Gt': '>', 'Ge': '>=', 'And': '&&', 'Or': '||', 'BitAnd': '&', 'BitOr': '|',
               'BitXor': '^', 'Shl': '<<', 'Shr': '>>'}
        return '(' + pp(n['l'], ind) + ' ' + ops.get(n['op'], n['op']) + ' ' + pp(n['r'], ind) + ')'
    if k == 'Assign':
        return pp(n['l'], ind) + ' = ' + pp(n['r'], ind)
    if k == 'AssignOp':
        return pp(n['l'], ind) + ' ' + n['op'] + ' ' + pp(n['r'], ind)
    if k == 'Cast':
        return pp(n['e'], ind) + ' as _'
    if k == 'Closure':
        return '<closure %s>' % n['def'].split('::')[-1]
    if k == 'Format':
        parts = []
        for p in n['pieces']:
            if isinstance(p, str):
                parts.append(p)
            else:
                parts.append('{%d}' % p[1])
        return 'format!(%r%s)' % (''.join(parts), ''.join(', ' + pp(a['e'], ind) for a in n['args']))
    if k in ('Const', 'Static'):
        return short(n['path'])
    if k == 'Yield':
        return 'yield'
    if k == 'Zst':
        return '<zst>'
    if k == 'Repeat':
        return '[%s; %s]' % (pp(n['e'], ind), n['count'])
    return '<%s>' % k


FACTS_DIR = os.path.join(os.path.dirname(os.path.dirname(os.path.abspath(__file__))), '.cache', 'facts')

if __name__ == '__main__':
    import sys
    prog = load(sys.argv[1])
    pat = sys.argv[2]
    for d, b in prog.bodies.items():
        if pat in d and 'body' in b:
            print('// ----', d, b['kind'])
            print(pp(b['body']))
