"""Panic-obligation census (engine D, part 1): every panic-capable site of a walked function."""
from . import ir
from .formula import atoms, conjuncts, entails, Atom, Not, And, T

PANIC_FNS = ('core::panicking::panic', 'core::panicking::panic_fmt', 'std::rt::begin_panic', 'core::panicking::panic_display',
             'core::panicking::unreachable_display', 'core::panicking::panic_explicit', 'std::rt::panic_fmt',
             'core::panicking::assert_failed', 'core::option::expect_failed', 'core::result::unwrap_failed')
INT_TYPES = ('usize', 'u8', 'u16', 'u32', 'u64', 'u128', 'isize', 'i8', 'i16', 'i32', 'i64', 'i128')
# library calls with documented panics on some arguments
LIB_PANICS = {
    'chunks': 'chunk size must be non-zero', 'chunks_exact': 'chunk size must be non-zero', 'windows': 'size must be non-zero',
    'split_at': 'mid <= len and on a char boundary', 'swap_remove': 'index < len', 'from_timestamp': 'timestamp in range',
    'interval': 'period must be non-zero', 'interval_at': 'period must be non-zero', 'step_by': 'step must be non-zero',
    'copy_from_slice': 'equal lengths', 'drain': 'range in bounds', 'truncate': None, 'from_utc': None,
    'with_capacity': None,
}
VEC_REMOVE_TYPES = ('std::vec::Vec<', 'std::string::String', 'std::collections::VecDeque<')


class Site:
    __slots__ = ('kind', 'ev', 'fn', 'subject', 'detail')

    def __init__(self, kind, ev, fn, subject, detail=None):
        self.kind = kind
        self.ev = ev
        self.fn = fn
        self.subject = subject
        self.detail = detail or {}


def sites_of(prog, fn, w):
    out = []
    for e in w.events:
        k = e.kind
        if k == 'unwrap':
            out.append(Site('unwrap', e, fn, e.data['recv'], {'ty': e.data.get('recv_ty'), 'name': e.data.get('name')}))
        elif k == 'index':
            out.append(Site('index', e, fn, e.data['base'], {'index': e.data['index'], 'base_ty': e.data.get('base_ty'),
                                                             'builtin': e.data.get('builtin')}))
        elif k == 'arith':
            ty = e.data.get('ty', '')
            if ty in INT_TYPES and e.data['op'] in ('Add', 'Sub', 'Mul', 'Div', 'Rem', 'Shl', 'Shr'):
                out.append(Site('arith', e, fn, (e.data['op'].lower(), e.data['l'], e.data['r']), {'ty': ty}))
        elif k == 'assignop':
            ty = e.data.get('ty', '')
            if ty in INT_TYPES and e.data['op'] in ('Add', 'Sub', 'Mul', 'Div', 'Rem', 'Shl', 'Shr'):
                out.append(Site('arith', e, fn, (e.data['op'].lower(), e.data['lhs'], e.data['rhs']), {'ty': ty, 'assign': True}))
        elif k == 'call':
            c = e.data.get('callee') or ''
            nm = e.data.get('name')
            if c.startswith(PANIC_FNS) or c in PANIC_FNS:
                out.append(Site('panic', e, fn, ('panic', c), {}))
            elif nm in LIB_PANICS and LIB_PANICS[nm] and not e.data.get('local'):
                out.append(Site('libcall', e, fn, ('call', nm) + tuple(e.data.get('args') or ()), {'why': LIB_PANICS[nm]}))
            elif nm == 'remove' and (e.data.get('recv_ty') or '').lstrip('&mut ').startswith(VEC_REMOVE_TYPES):
                out.append(Site('libcall', e, fn, ('call', nm) + tuple(e.data.get('args') or ()), {'why': 'index < len'}))
            elif e.data.get('trait', '') in ('std::ops::Sub', 'std::ops::Add', 'core::ops::Sub', 'core::ops::Add') \
                    and not e.data.get('local') and 'chrono' in c:
                out.append(Site('libcall', e, fn, ('call', nm) + tuple(e.data.get('args') or ()), {'why': 'chrono date arithmetic in range'}))
    return out
