"""Symbolic walker over the normalised tree (engines A, B, C of DESIGN.md).

For one function (plus bounded inlining of closures and selected crate-local callees)
it computes, without executing anything:

  * a canonical *term* for every expression (what it denotes: provenance),
  * the *path condition* (a propositional formula over canonical atoms) under which
    every node executes,
  * an *event list*: calls, assignments, struct literals, awaits, `?`, returns, lock
    acquisitions, indexing and arithmetic -- each with its path condition, argument
    terms, enclosing loops and live state-lock guards.

Rules (rules/C*.py) are queries over the event list.  The walker is purely
syntactic-semantic: it never runs the program and never consults a solver.
"""
from . import ir
from .formula import T, F, And, Or, Not, Atom, sat, Budget

BOOL = 'bool'

IDENTITY_METHODS = {
    'to_string', 'clone', 'as_str', 'as_ref', 'as_mut', 'as_deref', 'as_deref_mut', 'deref', 'deref_mut',
    'borrow', 'borrow_mut', 'to_owned', 'into', 'copied', 'cloned', 'iter', 'iter_mut', 'into_iter',
    'as_bytes', 'to_vec', 'as_slice', 'peekable', 'by_ref', 'from', 'as_string', 'fuse', 'collect',
    'from_iter', 'rev', 'into_boxed_str', 'unwrap_or_default', 'must_use',
}

OPTION_TYPES = ('std::option::Option<', 'core::option::Option<')
RESULT_TYPES = ('std::result::Result<', 'core::result::Result<')


def lit(v):
    return ('lit', v)


def mk_eq(a, b):
    # Option / conditional values compare component-wise
    if isinstance(a, tuple) and isinstance(b, tuple) and a and b:
        if a[0] == 'some' and b[0] == 'some':
            return mk_eq(a[1], b[1])
        if {a[0], b[0]} == {'some', 'none'}:
            return F
        if a[0] == 'none' and b[0] == 'none':
            return T
        if a[0] == 'adt' and b[0] == 'adt' and len(a) > 2 and len(b) > 2 and a[1] == b[1]:
            if a[2] != b[2]:
                return F                      # different variants of one enum
            if not (len(a) > 3 and a[3]) and not (len(b) > 3 and b[3]):
                return T                      # the same field-less variant
        if a[0] == 'ite' and len(a) == 4:
            return Or(And(a[1], mk_eq(a[2], b)), And(Not(a[1]), mk_eq(a[3], b)))
        if b[0] == 'ite' and len(b) == 4:
            return Or(And(b[1], mk_eq(a, b[2])), And(Not(b[1]), mk_eq(a, b[3])))
    # literal goes second; otherwise order by repr for symmetry
    if a[0] == 'lit' and b[0] != 'lit':
        a, b = b, a
    elif a[0] != 'lit' and b[0] != 'lit' and repr(b) < repr(a):
        a, b = b, a
    if a == b:
        return T
    if a[0] == 'lit' and b[0] == 'lit':
        return T if a[1] == b[1] else F
    return Atom(('eq', a, b))


def taut(f):
    """collapse a continuation formula that is a tautology (both branches continue)"""
    if f == T or f == F:
        return f
    try:
        if sat(Not(f), limit=4000) is None:
            return T
    except Budget:
        pass
    return f


def is_variant(t, variant):
    """formula: term t (an enum value) is the given variant; Option/Result are 2-valued"""
    if variant == 'None':
        return Not(is_variant(t, 'Some'))
    if variant == 'Err':
        return Not(is_variant(t, 'Ok'))
    if t[0] == 'some':
        return T if variant == 'Some' else F
    if t[0] == 'ok':
        return T if variant == 'Ok' else F
    if t[0] == 'none':
        return T if variant == 'None' else F
    if t[0] == 'err':
        return F        # asked for Ok / Some (Err and None are handled above through the negation)
    if t[0] == 'adt' and len(t) > 2:
        return T if t[2] == variant else F
    if t[0] == 'ite':
        return Or(And(t[1], is_variant(t[2], variant)), And(Not(t[1]), is_variant(t[3], variant)))
    return Atom(('is', t, variant))


def _only_err(v):
    """the value `x?` returns early with: x restricted to its error cases"""
    if isinstance(v, tuple) and v:
        if v[0] == 'ite' and len(v) == 4:
            return mk_ite(v[1], _only_err(v[2]), _only_err(v[3]))
        if v[0] in ('ok', 'some'):
            return ('unreachable',)
    return v


def split_ite_args(term, limit=8):
    """[(condition, term')] with every `ite` occurring as a direct argument of the call term resolved to one of its branches
       (f(ite(c, a, b), x)  ==>  [(c, f(a, x)), (!c, f(b, x))]); bounded"""
    out = [(T, term)]
    changed = True
    while changed and len(out) <= limit:
        changed = False
        nxt = []
        for c, t in out:
            idx = None
            if isinstance(t, tuple) and t and t[0] == 'call':
                for i in range(2, len(t)):
                    if isinstance(t[i], tuple) and t[i][:1] == ('ite',):
                        idx = i
                        break
            if idx is None:
                nxt.append((c, t))
                continue
            changed = True
            it = t[idx]
            nxt.append((And(c, it[1]), t[:idx] + (it[2],) + t[idx + 1:]))
            nxt.append((And(c, Not(it[1])), t[:idx] + (it[3],) + t[idx + 1:]))
        out = nxt
    return out


def call_atom(r):
    """formula for the truth of a bool-valued call term; conditional arguments are lifted out so that the atoms are about
       plain argument terms"""
    parts = split_ite_args(r)
    if len(parts) == 1:
        return Atom(r)
    return Or(*[And(c, Atom(t)) for c, t in parts])


def variant_field(v, var, fname):
    """field `fname` of enum value v known (by the matching arm) to be variant `var`; looks through conditional values whose other
       branches are different variants"""
    if isinstance(v, tuple) and v:
        if v[0] == 'adt' and len(v) > 3 and v[2] == var:
            return dict(v[3]).get(fname, ('vfield', v, var, fname))
        if v[0] == 'ite' and len(v) == 4:
            a_can = is_variant(v[2], var) != F
            b_can = is_variant(v[3], var) != F
            if a_can and not b_can:
                return variant_field(v[2], var, fname)
            if b_can and not a_can:
                return variant_field(v[3], var, fname)
            if a_can and b_can:
                return mk_ite(v[1], variant_field(v[2], var, fname), variant_field(v[3], var, fname))
    return ('vfield', v, var, fname)


def payload(t, variant='Some'):
    """term of the payload of Some/Ok"""
    if t[0] in ('some', 'ok'):
        return t[1]
    if t[0] == 'get':
        return ('idx', t[1], t[2])
    if t[0] == 'ite':
        # the payload only exists on the Some side: a None alternative contributes nothing
        if t[3] == ('none',) or (t[3][:1] == ('err',) and variant == 'Ok'):
            return payload(t[2], variant)
        if t[2] == ('none',) or (t[2][:1] == ('err',) and variant == 'Ok'):
            return payload(t[3], variant)
        return mk_ite(t[1], payload(t[2], variant), payload(t[3], variant))
    return ('some_of', t)


def as_formula(v):
    if isinstance(v, tuple) and v and v[0] == BOOL:
        return v[1]
    if isinstance(v, tuple) and v and v[0] == 'lit' and isinstance(v[1], bool):
        return T if v[1] else F
    if isinstance(v, tuple) and v and v[0] == 'ite':
        return Or(And(v[1], as_formula(v[2])), And(Not(v[1]), as_formula(v[3])))
    return Atom(('truth', v))


def mk_bool(f):
    return (BOOL, f)


def mk_ite(f, a, b):
    if f == T:
        return a
    if f == F:
        return b
    if a == b:
        return a
    if a is None:
        return b
    if b is None:
        return a
    ab = isinstance(a, tuple) and a and (a[0] == BOOL or (a[0] == 'lit' and isinstance(a[1], bool)))
    bb = isinstance(b, tuple) and b and (b[0] == BOOL or (b[0] == 'lit' and isinstance(b[1], bool)))
    if ab and bb:
        return mk_bool(Or(And(f, as_formula(a)), And(Not(f), as_formula(b))))
    if a[0] == 'tuple' and b[0] == 'tuple' and len(a) == len(b):
        return ('tuple',) + tuple(mk_ite(f, x, y) for x, y in zip(a[1:], b[1:]))
    return ('ite', f, a, b)


def proj(v, i):
    """i-th component of a tuple-valued term"""
    if v[0] == 'tuple':
        if i + 1 < len(v):
            return v[i + 1]
    if v[0] == 'ite':
        return mk_ite(v[1], proj(v[2], i), proj(v[3], i))
    return ('field', v, str(i))


class Event:
    __slots__ = ('kind', 'node', 'pc', 'fn', 'data', 'loops', 'guards', 'seq', 'stack')

    def __init__(self, kind, node, pc, fn, data, loops, guards, seq, stack):
        self.kind = kind
        self.node = node
        self.pc = pc
        self.fn = fn
        self.data = data
        self.loops = loops
        self.guards = guards
        self.seq = seq
        self.stack = stack

    def __repr__(self):
        return 'Event(%s %s)' % (self.kind, self.data.get('callee') or self.data.get('lhs') or '')


class Frame:
    """per-function evaluation frame"""

    def __init__(self, fn_path, body):
        self.fn = fn_path
        self.body = body
        self.env = {}
        self.mut_vars = set()
        self.local_colls = {}   # var id -> list of push records
        self.returns = []


class Walker:
    def __init__(self, prog, inline=(), max_depth=3, inline_pred=None):
        self.prog = prog
        self.inline = set(inline)
        self.inline_pred = inline_pred
        self.max_depth = max_depth
        self.events = []
        self.seq = 0
        self.loops = []
        self.guards = []
        self.frames = []
        self.guard_counter = 0
        self.opaque_counter = 0
        # boolean fields assigned so far: place term -> [(assigned formula, pc of the assignment)]
        self.store = {}
        self.applied = set()      # closure defs whose body was inlined during this walk

    # ------------------------------------------------------------ plumbing
    @property
    def fr(self):
        return self.frames[-1]

    def emit(self, kind, node, pc, **data):
        self.seq += 1
        ev = Event(kind, node, pc, self.fr.fn, data, tuple(self.loops), tuple(self.guards), self.seq,
                   tuple(f.fn for f in self.frames))
        self.events.append(ev)
        return ev

    def tystr(self, n):
        return self.prog.ty(n)

    def is_bool(self, n):
        return self.tystr(n) == 'bool'

    # ------------------------------------------------------------ entry
    def run(self, fn_path, args=None, self_term=None):
        """analyse fn_path (an fn, async fn or closure def path); returns (value, events)"""
        val, cont = self.call_local(fn_path, args, T, top=True)
        return val

    def _prescan(self, frame, body):
        """find directly assigned variables (opaque) and local accumulators"""
        seen = set()
        todo = [body]
        while todo:
            b = todo.pop()
            for n in ir.walk(b):
                k = n.get('k')
                if k in ('Assign', 'AssignOp'):
                    l0 = n['l']
                    l = ir.strip(l0)
                    # `*p = v` through a reference writes the place p points to, not the variable p
                    through_ref = l0.get('k') == 'Deref' and l.get('k') == 'Var'
                    if l.get('k') == 'Var' and not through_ref:
                        frame.mut_vars.add(l['v'])
                elif k == 'Closure':
                    # closures are separate body owners but share the variables of their parent
                    d = n['def']
                    cb = self.prog.bodies.get(d)
                    if cb is not None and 'body' in cb and d not in seen:
                        seen.add(d)
                        todo.append(cb['body'])

    _MUT_NAMES = ('insert', 'remove', 'clear', 'retain', 'extend', 'drain', 'remove_entry', 'entry')

    def _loop_mutates(self, qnode):
        """hid of the innermost enclosing loop whose body directly mutates the container this query node reads (same receiver
           expression), else None"""
        try:
            qtxt = ir.pp(ir.strip(qnode['args'][0]))
        except Exception:
            return None
        for (kind, hid, iv, lnode) in reversed(self.loops):
            if lnode is None:
                continue
            cache = self.__dict__.setdefault('_loopmut', {})
            key = (id(lnode), qtxt)
            if key not in cache:
                hit = False
                for m in ir.walk(lnode):
                    if m.get('k') in ('Call', 'MethodCall') and m is not qnode and m.get('args'):
                        c = (ir.callee(m) or '').split('::')[-1]
                        if c in self._MUT_NAMES:
                            try:
                                if ir.pp(ir.strip(m['args'][0])) == qtxt:
                                    hit = True
                                    break
                            except Exception:
                                pass
                cache[key] = hit
            if cache[key]:
                return hid
        return None

    def call_local(self, fn_path, args, pc, top=False, closure_env=None, arg_nodes=None):
        prog = self.prog
        shell = prog.bodies.get(fn_path)
        if shell is None or 'body' not in shell:
            return None, T
        body_owner = shell
        if _COVER is not None:
            _COVER.add(fn_path)
        if not top:
            self.__dict__.setdefault('inlined_fns', set()).add(fn_path)
        frame = Frame(fn_path, shell)
        # local accumulators live in one walker-level table; a helper that is looked through twice gets distinct locals
        frame.local_colls = self.__dict__.setdefault('_all_local_colls', {})
        if not top and closure_env is None:
            self._inst = getattr(self, '_inst', 0) + 1
            frame.inst = self._inst
        else:
            frame.inst = 0 if top else getattr(self.fr, 'inst', 0) if self.frames else 0
        # async fn: parameters live in the shell, the code in {closure#0}
        params = shell.get('params', [])
        if ir.is_async_shell(shell) and (fn_path + '::{closure#0}') in prog.bodies:
            body_owner = prog.bodies[fn_path + '::{closure#0}']
        if closure_env is not None:
            frame.env = closure_env      # closures share the variable space of their parent
            frame.mut_vars = self.fr.mut_vars
            frame.local_colls = self.fr.local_colls
        self.frames.append(frame)
        if closure_env is None:
            self._prescan(frame, body_owner['body'])
            if body_owner is not shell:
                pass
        # bind parameters
        real_params = [p for p in params if 'pat' in p]
        for i, p in enumerate(real_params):
            if args is not None and i < len(args) and args[i] is not None:
                v = args[i]
            else:
                names = ir.pat_binds(p['pat'])
                nm = names[0][0] if names else 'arg%d' % i
                v = ('param', nm)
            self.bind(p['pat'], v, T)
            if arg_nodes is not None and i < len(arg_nodes) and p['pat'].get('k') == 'Bind' and len(self.frames) > 1:
                # parameter of an inlined callee: remember which argument expression it stands for (provenance across helpers)
                saved = self.frames.pop()
                try:
                    self.emit('bind', arg_nodes[i], pc, name=p['pat']['n'], var=p['pat']['v'], value=v, param_of=fn_path, arg_node=arg_nodes[i])
                finally:
                    self.frames.append(saved)
        val, cont = self.ev(body_owner['body'], pc)
        # returns recorded in frame.returns
        rets = frame.returns
        self.frames.pop()
        if rets:
            for (rpc, rv) in rets:
                if rv is not None and val is not None and rv != val:
                    val = mk_ite(rpc, rv, val) if val is not None else rv
                elif val is None:
                    val = rv
        return val, T

    # ------------------------------------------------------------ patterns
    def bind(self, p, v, pc):
        """bind pattern p against value v; returns the formula 'p matches v'"""
        k = p.get('k')
        if k == 'Wild':
            return T
        if k == 'Bind':
            vid = p['v']
            if vid in self.fr.mut_vars:
                self.fr.env[vid] = ('mvar', p['n'], vid)
                self.emit('assign', p, pc, lhs=('mvar', p['n'], vid), rhs=v, init=True)
            elif isinstance(v, tuple) and v and v[0] == 'fresh':
                self.fr.env[vid] = ('local', p['n'], self._lid(vid))
            elif isinstance(v, tuple) and v and v[0] in ('lit', 'fmt') and 'Mut' in p.get('mode', '') and \
                    self.prog.types[p['ty']] == 'std::string::String':
                # a `let mut s = "..".to_string()` accumulator: its later appends are local mutations
                loc = ('local', p['n'], self._lid(vid))
                self.fr.env[vid] = loc
                self.fr.local_colls.setdefault(loc[2], []).append(dict(method='init', value=v, pc=pc, loops=tuple(self.loops), node=p))
                self.emit('local_mut', p, pc, local=loc, method='init', args=[v])
            else:
                self.fr.env[vid] = v
            if 'sub' in p:
                return self.bind(p['sub'], v, pc)
            return T
        if k == 'DerefPat':
            return self.bind(p['sub'], v, pc)
        if k == 'Variant':
            var = p['variant']
            cond = is_variant(v, var)
            conds = [cond]
            adt = p.get('adt', '')
            for f in p['fields']:
                if var in ('Some', 'Ok') and adt.endswith(('Option', 'Result')):
                    sub = payload(v, var)
                elif var == 'Err' and adt.endswith('Result'):
                    sub = ('err_of', v)
                else:
                    sub = variant_field(v, var, f['f'])
                conds.append(self.bind(f['p'], sub, pc))
            return And(*conds)
        if k == 'Leaf':
            conds = []
            for f in p['fields']:
                if f['f'].isdigit():
                    sub = proj(v, int(f['f']))
                else:
                    sub = self.field_of(v, f['f'])
                conds.append(self.bind(f['p'], sub, pc))
            return And(*conds)
        if k == 'ConstPat':
            val = p['val']
            ty = self.prog.types[p['ty']] if 'ty' in p else ''
            if ty == 'bool':
                f = as_formula(v)
                return f if val == 'true' else Not(f)
            return mk_eq(v, lit(_parse_const(val)))
        if k == 'Or':
            return Or(*[self.bind(q, v, pc) for q in p['pats']])
        if k == 'GuardPat':
            return self.bind(p['sub'], v, pc)
        if k == 'RangePat':
            self.opaque_counter += 1
            return Atom(('range_pat', v, p.get('val')))
        if k == 'SlicePat':
            return Atom(('slice_pat', v, len(p['prefix']) + len(p['suffix'])))
        return T

    def field_of(self, v, fname):
        if v[0] == 'adt' and len(v) > 3:
            d = dict(v[3])
            if fname in d:
                return d[fname]
        if v[0] == 'ite':
            return mk_ite(v[1], self.field_of(v[2], fname), self.field_of(v[3], fname))
        return ('field', v, fname)

    # ------------------------------------------------------------ evaluation
    def ev(self, n, pc):
        """returns (value term, cont formula)"""
        k = n.get('k')
        m = getattr(self, 'ev_' + k, None)
        if m is None:
            return ('opaque', k), T
        return m(n, pc)

    def ev_Block(self, n, pc):
        cont = T
        cur = pc
        mark = len(self.guards)
        val = ('unit',)
        for s in n['stmts']:
            gm = len(self.guards)
            v, c = self.ev(s, cur)
            if s.get('k') != 'Let':
                # temporaries (incl. lock guards) of an expression statement die with it
                del self.guards[gm:]
            cont = And(cont, c)
            cur = And(cur, c)
        if 'expr' in n:
            val, c = self.ev(n['expr'], cur)
            cont = And(cont, c)
        del self.guards[mark:]
        return val, cont

    def ev_Let(self, n, pc):
        if 'init' in n:
            gm = len(self.guards)
            v, c = self.ev(n['init'], pc)
            # a guard bound to a variable stays live to the end of the block; a temporary dies here
            if not (isinstance(v, tuple) and v and v[0] == 'state' and self._binds_guard(n)):
                del self.guards[gm:]
        else:
            v, c = ('uninit',), T
        m = self.bind(n['pat'], v, pc)
        if n['pat'].get('k') == 'Bind':
            self.emit('bind', n, pc, name=n['pat']['n'], var=n['pat']['v'], value=v)
        if 'else' in n:
            self.ev(n['else'], And(pc, c, Not(m)))
            return ('unit',), And(c, m)
        return ('unit',), c

    def _binds_guard(self, let):
        ty = self.prog.types[let['pat']['ty']] if 'ty' in let['pat'] else ''
        return 'RwLockWriteGuard' in ty or 'RwLockReadGuard' in ty

    def ev_If(self, n, pc):
        gm = len(self.guards)
        cv, cc = self.ev(n['cond'], pc)
        if n['cond'].get('k') != 'LetExpr':
            del self.guards[gm:]
        f = as_formula(cv)
        pc1 = And(pc, cc)
        tv, tc = self.ev(n['then'], And(pc1, f))
        if 'else' in n:
            evv, ec = self.ev(n['else'], And(pc1, Not(f)))
        else:
            evv, ec = ('unit',), T
        del self.guards[gm:]
        cont = cc if (tc == T and ec == T) else And(cc, taut(Or(And(f, tc), And(Not(f), ec))))
        if tc == F:
            val = evv
        elif ec == F:
            val = tv
        else:
            val = mk_ite(f, tv, evv)
        return val, cont

    def ev_LetExpr(self, n, pc):
        v, c = self.ev(n['e'], pc)
        m = self.bind(n['pat'], v, pc)
        return mk_bool(m), c

    def ev_Match(self, n, pc):
        gm = len(self.guards)
        sv, sc = self.ev(n['scrut'], pc)
        pc1 = And(pc, sc)
        earlier = []     # (formula, simple-variant-name or None)
        conts = []
        all_cont = True
        val = None
        for a in n['arms']:
            m = self.bind(a['pat'], sv, pc1)
            simple = _simple_variant(a['pat'])
            # an earlier arm testing a *different* variant of the same scrutinee is excluded by the
            # variant-exclusivity axiom already; only the others need an explicit negation
            negs = [Not(e) for (e, sv_name) in earlier
                    if not (simple is not None and sv_name is not None and sv_name != simple)]
            eff = And(m, *negs)
            if 'guard' in a:
                gv, gc = self.ev(a['guard'], And(pc1, eff))
                g = as_formula(gv)
                eff_g = And(eff, g)
                earlier.append((And(m, g), None))
            else:
                eff_g = eff
                earlier.append((m, simple))
            bv, bc = self.ev(a['body'], And(pc1, eff_g))
            conts.append(And(eff_g, bc))
            if bc != T:
                all_cont = False
            if bc != F:
                val = bv if val is None else mk_ite(eff_g, bv, val)
        del self.guards[gm:]
        cont = sc if all_cont else And(sc, taut(Or(*conts)))
        return (val if val is not None else ('never',)), cont

    def ev_Loop(self, n, pc):
        self.loops.append(('loop', n.get('hid'), None, n))
        self.ev(n['body'], pc)
        self.loops.pop()
        return ('unit',), T

    def ev_For(self, n, pc):
        iv, ic = self.ev(n['iter'], pc)
        # a loop over a small literal table (`for (flag, list) in [(A, &x.a), (B, &x.b)] {..}`) is unrolled: each row is a
        # straight-line copy of the body with the pattern bound to that row
        tab = iv
        while isinstance(tab, tuple) and tab and tab[0] in ('some_of',) and False:
            tab = tab[1]
        if isinstance(tab, tuple) and tab and tab[0] == 'array' and 1 <= len(tab) - 1 <= 12 and not self._body_breaks(n['body']):
            for row in tab[1:]:
                self.bind(n['pat'], row, pc)
                self.ev(n['body'], And(pc, ic))
            return ('unit',), ic
        if isinstance(tab, tuple) and tab and tab[0] in ('rows', 'union') and not self._body_breaks(n['body']):
            for c_, item in tab[1:]:
                if tab[0] == 'rows':
                    self.bind(n['pat'], item, And(pc, c_))
                    self.ev(n['body'], And(pc, ic, c_))
                else:
                    e_, f_ = self.elem_of(item, None, And(pc, c_))
                    self.loops.append(('for', n.get('hid'), item, n))
                    self.bind(n['pat'], e_, And(pc, c_))
                    self.ev(n['body'], And(pc, ic, c_, f_))
                    self.loops.pop()
            return ('unit',), ic
        if isinstance(iv, tuple) and iv and iv[0] == 'ite':
            # the collection itself was chosen by a condition (`if all { map.keys().collect() } else { set }`): one loop per case
            def _cases(t, c):
                if isinstance(t, tuple) and t and t[0] == 'ite':
                    return _cases(t[2], And(c, t[1])) + _cases(t[3], And(c, Not(t[1])))
                return [(c, t)]
            for c_, coll in _cases(iv, T):
                if coll[:1] == ('never',) or sat(And(pc, c_)) is None:
                    continue
                elem, facts = self.elem_of(coll, None, And(pc, c_))
                self.loops.append(('for', n.get('hid'), coll, n))
                self.bind(n['pat'], elem, And(pc, c_))
                self.ev(n['body'], And(pc, ic, c_, facts))
                self.loops.pop()
            return ('unit',), ic
        elem, facts = self.elem_of(iv, n['iter'], pc)
        self.loops.append(('for', n.get('hid'), iv, n))
        m = self.bind(n['pat'], elem, pc)
        self.ev(n['body'], And(pc, ic, facts))
        self.loops.pop()
        return ('unit',), ic

    def _body_breaks(self, body):
        for m in ir.walk(body):
            if m.get('k') in ('Break', 'Continue', 'Return'):
                return True
        return False

    def ev_Break(self, n, pc):
        if 'e' in n:
            self.ev(n['e'], pc)
        self.emit('break', n, pc)
        return ('never',), F

    def ev_Continue(self, n, pc):
        self.emit('continue', n, pc)
        return ('never',), F

    def ev_Return(self, n, pc):
        v = None
        if 'e' in n:
            v, c = self.ev(n['e'], pc)
        self.emit('return', n, pc, value=v)
        self.fr.returns.append((pc, v))
        return ('never',), F

    def ev_Await(self, n, pc):
        v, c = self.ev(n['e'], pc)
        inner = ir.strip(n['e'])
        self.emit('await', n, pc, callee=ir.callee(inner) if inner.get('k') == 'Call' else None, value=v)
        return v, c

    _IO_ERR = ('dyn std::error::Error', 'SendError', 'std::io::Error', 'LinesCodecError', 'RecvError', 'Elapsed', 'JoinError')

    def ev_Try(self, n, pc):
        v, c = self.ev(n['e'], pc)
        self.emit('try', n, pc, value=v)
        if v is None:
            return ('unit',), c
        # `x?` on a value whose failure is a decision of the program (parse / validation errors, an absent Option) continues only
        # when x is Ok/Some and returns the error otherwise; `?` on I/O results (socket, queue, timer) is not a decision any rule
        # reasons about and stays transparent
        try:
            ty = self.prog.ty(n['e'])
        except Exception:
            ty = ''
        structured = isinstance(v, tuple) and v and v[0] in ('ite', 'ok', 'err', 'some', 'none')   # e.g. the value of a looked-through helper
        if ty and (structured or not any(x in ty for x in self._IO_ERR)) and \
                (ty.startswith('std::result::Result<') or ty.startswith('std::option::Option<')):
            okv = 'Some' if ty.startswith('std::option::Option<') else 'Ok'
            cond = is_variant(v, okv)
            if cond != T:
                if cond != F:
                    self.fr.returns.append((And(pc, c, Not(cond)), _only_err(v) if okv == 'Ok' else ('none',)))
                return payload(v, okv), And(c, cond)
        return payload(v, 'Ok'), c

    def ev_Trace(self, n, pc):
        return ('unit',), T

    def ev_Yield(self, n, pc):
        return ('unit',), T

    def ev_Deref(self, n, pc):
        return self.ev(n['e'], pc)

    def ev_Borrow(self, n, pc):
        return self.ev(n['e'], pc)

    ev_RawBorrow = ev_Borrow

    def ev_Cast(self, n, pc):
        return self.ev(n['e'], pc)

    def ev_Var(self, n, pc):
        vid = n['v']
        if vid in self.fr.env:
            return self.fr.env[vid], T
        return ('param', n['n']), T

    def ev_Lit(self, n, pc):
        v = n.get('val')
        if n.get('lk') == 'bool':
            return mk_bool(T if v else F), T
        if n.get('lk') == 'bytes':
            return ('lit', bytes(v)), T
        return ('lit', v), T

    def ev_Const(self, n, pc):
        # a named constant of the crate whose initialiser is a literal is that literal (`const END: &[u8] = b"\r\n"`)
        b = self.prog.bodies.get(n['path'])
        if b is not None and str(b.get('kind', '')).startswith('Const'):
            e = b.get('body') or {}
            while e.get('k') in ('Borrow', 'Deref', 'Scope', 'Use') and 'e' in e:
                e = e['e']
            if e.get('k') == 'Lit' and e.get('lk') != 'bool':
                return self.ev_Lit(e, pc)
        return ('const', n['path']), T

    def ev_Static(self, n, pc):
        return ('static', n['path']), T

    def ev_Fn(self, n, pc):
        return ('fnref', n.get('resolved') or n['path']), T

    def ev_Zst(self, n, pc):
        return ('zst', self.tystr(n)), T

    def ev_Opaque(self, n, pc):
        return ('opaque', n.get('why')), T

    def ev_ConstBlock(self, n, pc):
        return ('const', n['path']), T

    def ev_Repeat(self, n, pc):
        v, c = self.ev(n['e'], pc)
        return ('repeat', v, n.get('count')), c

    def ev_Tuple(self, n, pc):
        vs = []
        cont = T
        for e in n['es']:
            v, c = self.ev(e, And(pc, cont))
            vs.append(v)
            cont = And(cont, c)
        if not vs:
            return ('unit',), cont
        return ('tuple',) + tuple(vs), cont

    def ev_Array(self, n, pc):
        vs = []
        cont = T
        for e in n['es']:
            v, c = self.ev(e, And(pc, cont))
            vs.append(v)
            cont = And(cont, c)
        return ('array',) + tuple(vs), cont

    def ev_Adt(self, n, pc):
        fs = []
        cont = T
        for f in n['fields']:
            v, c = self.ev(f['e'], And(pc, cont))
            fs.append((f['f'], v))
            cont = And(cont, c)
        base = None
        if 'base' in n:
            base, c = self.ev(n['base'], And(pc, cont))
            cont = And(cont, c)
        adt = n['adt']
        var = n['variant']
        # Option/Result constructors
        if adt.endswith('::Option') and var == 'Some' and fs:
            val = ('some', fs[0][1])
        elif adt.endswith('::Option') and var == 'None':
            val = ('none',)
        elif adt.endswith('::Result') and var == 'Ok' and fs:
            val = ('ok', fs[0][1])
        elif adt.endswith('::Result') and var == 'Err' and fs:
            val = ('err', fs[0][1])
        else:
            val = ('adt', adt, var, tuple(fs)) + ((base,) if base is not None else ())
        self.emit('adt', n, pc, adt=adt, variant=var, fields=dict(fs), base=base, value=val)
        return val, cont

    def ev_Format(self, n, pc):
        vs = []
        cont = T
        for a in n['args']:
            v, c = self.ev(a['e'], And(pc, cont))
            vs.append(v)
            cont = And(cont, c)
        pieces = tuple(p if isinstance(p, str) else ('arg', p[1]) for p in n['pieces'])
        val = ('fmt', pieces) + tuple(vs)
        self.emit('format', n, pc, pieces=pieces, args=vs, value=val)
        return val, cont

    def ev_Closure(self, n, pc):
        for u in n['upvars']:
            self.ev(u, pc)
        return ('closure', n['def']), T

    def ev_Field(self, n, pc):
        v, c = self.ev(n['e'], pc)
        f = n['f']
        if f.isdigit() and 'adt' not in n:
            r = proj(v, int(f))
        else:
            r = self.field_of(v, f)
        if self.is_bool(n) and r[0] not in (BOOL, 'ite'):
            place = r
            r = mk_bool(Atom(('flag', r)))
            # a read after an assignment to the same place sees the assigned value on the paths
            # that went through the assignment (atoms denote the value before the assignment)
            for (val, apc) in self.store.get(place, ()):
                r = mk_ite(apc, mk_bool(val), r)
        elif self.is_bool(n) and r[0] == 'ite':
            r = mk_bool(as_formula(_boolify(r)))
        return r, c

    def ev_Index(self, n, pc):
        b, c1 = self.ev(n['e'], pc)
        i, c2 = self.ev(n['i'], And(pc, c1))
        self.emit('index', n, pc, base=b, index=i, base_ty=self.tystr(n['e']), builtin=True)
        return ('index', b, i), And(c1, c2)

    def ev_Unary(self, n, pc):
        v, c = self.ev(n['e'], pc)
        if n['op'] == 'Not' and self.is_bool(n):
            return mk_bool(Not(as_formula(v))), c
        if n['op'] == 'Not':
            return ('bitnot', v), c
        return ('neg', v), c

    def ev_Logical(self, n, pc):
        lv, lc = self.ev(n['l'], pc)
        lf = as_formula(lv)
        if n['op'] == 'And':
            rv, rc = self.ev(n['r'], And(pc, lc, lf))
            rf = as_formula(rv)
            # rhs may diverge only when evaluated
            return mk_bool(And(lf, rf)), And(lc, T if rc == T else taut(Or(Not(lf), rc)))
        rv, rc = self.ev(n['r'], And(pc, lc, Not(lf)))
        rf = as_formula(rv)
        return mk_bool(Or(lf, rf)), And(lc, T if rc == T else taut(Or(lf, rc)))

    def ev_Binary(self, n, pc):
        lv, lc = self.ev(n['l'], pc)
        rv, rc = self.ev(n['r'], And(pc, lc))
        op = n['op']
        cont = And(lc, rc)
        r = self.binop(op, lv, rv, n, pc)
        return r, cont

    def binop(self, op, lv, rv, n, pc):
        if op in ('Eq', 'Ne', 'Lt', 'Le', 'Gt', 'Ge'):
            if lv[0] == BOOL or rv[0] == BOOL:
                a, b = as_formula(lv), as_formula(rv)
                eq = Or(And(a, b), And(Not(a), Not(b)))
                if op == 'Eq':
                    return mk_bool(eq)
                if op == 'Ne':
                    return mk_bool(Not(eq))
            if op == 'Eq':
                return mk_bool(mk_eq(lv, rv))
            if op == 'Ne':
                return mk_bool(Not(mk_eq(lv, rv)))
            if op == 'Lt':
                return mk_bool(Atom(('lt', lv, rv)))
            if op == 'Gt':
                return mk_bool(Atom(('lt', rv, lv)))
            if op == 'Le':
                return mk_bool(Not(Atom(('lt', rv, lv))))
            if op == 'Ge':
                return mk_bool(Not(Atom(('lt', lv, rv))))
        if op in ('BitAnd', 'BitOr', 'BitXor') and (lv[0] == BOOL and rv[0] == BOOL):
            a, b = as_formula(lv), as_formula(rv)
            if op == 'BitAnd':
                return mk_bool(And(a, b))
            if op == 'BitOr':
                return mk_bool(Or(a, b))
            return mk_bool(Or(And(a, Not(b)), And(Not(a), b)))
        self.emit('arith', n, pc, op=op, l=lv, r=rv, ty=self.tystr(n))
        return (op.lower(), lv, rv)

    def ev_Assign(self, n, pc):
        rv, rc = self.ev(n['r'], pc)
        lv, lc = self.ev_place(n['l'], And(pc, rc))
        self.emit('assign', n, pc, lhs=lv, rhs=rv, lhs_node=n['l'])
        if self.tystr(n['l']) == 'bool' and lv[0] == 'field':
            self.store.setdefault(lv, []).append((as_formula(rv), pc))
        return ('unit',), And(rc, lc)

    def ev_AssignOp(self, n, pc):
        rv, rc = self.ev(n['r'], pc)
        lv, lc = self.ev_place(n['l'], And(pc, rc))
        op = n['op'].replace('Assign', '')
        self.emit('assignop', n, pc, op=op, lhs=lv, rhs=rv, ty=self.tystr(n['l']), lhs_node=n['l'])
        return ('unit',), And(rc, lc)

    def ev_place(self, n, pc):
        """evaluate an lvalue to its canonical place term"""
        s = n
        while s.get('k') in ('Deref', 'Borrow'):
            s = s['e']
        if s.get('k') == 'Var':
            vid = s['v']
            v = self.fr.env.get(vid)
            if v is not None and vid not in self.fr.mut_vars:
                return v, T
            return ('mvar', s['n'], vid), T
        if s.get('k') == 'Field':
            b, c = self.ev_place(s['e'], pc)
            return ('field', b, s['f']), c
        return self.ev(s, pc)

    # ------------------------------------------------------------ calls
    def ev_Call(self, n, pc):
        fn = ir.callee_fn(n)
        if fn is None:
            # indirect call (closure variable etc.)
            fv, fc = self.ev(n['fun'], pc)
            args = []
            cont = fc
            for a in n['args']:
                v, c = self.ev(a, And(pc, cont))
                args.append(v)
                cont = And(cont, c)
            cd = self.closure_def(fv)
            if cd is not None:
                # a closure passed in as a parameter (`name_of: impl Fn(&T) -> &String`) and called here
                val, c2 = self.apply_closure(cd, args, And(pc, cont))
                return val, cont
            self.emit('call', n, pc, callee=None, fnval=fv, args=args, name=None)
            return ('call', None, fv) + tuple(args), cont
        path = fn.get('resolved') or fn['path']
        name = fn['name']
        # evaluate arguments left to right (closures are not evaluated: they are inlined by the model)
        args = []
        cont = T
        for a in n['args']:
            v, c = self.ev(a, And(pc, cont))
            args.append(v)
            cont = And(cont, c)
        pc2 = And(pc, cont)
        val = self.model_call(n, fn, path, name, args, pc2)
        # a call of type `!` (panic!, unreachable!, process::exit ..) does not come back: like `return`, the path ends here
        try:
            if self.tystr(n) == '!':
                return ('never',), F
        except Exception:
            pass
        return val, cont

    def _lid(self, vid):
        inst = getattr(self.fr, 'inst', 0)
        return vid if not inst else (vid, inst)

    def closure_def(self, v):
        if isinstance(v, tuple) and v and v[0] == 'closure':
            return v[1]
        return None

    def apply_closure(self, cdef, argvals, pc):
        """inline a closure body with its parameters bound to argvals; returns value"""
        b = self.prog.bodies.get(cdef)
        if b is None or 'body' not in b:
            return ('opaque', 'closure'), T
        self.applied.add(cdef)
        params = [p for p in b.get('params', []) if 'pat' in p]
        saved = self.fr.fn
        # closures share the enclosing frame's variable space
        for i, p in enumerate(params):
            v = argvals[i] if i < len(argvals) else ('param', 'carg%d' % i)
            self.bind(p['pat'], v, pc)
        rets_mark = len(self.fr.returns)
        val, cont = self.ev(b['body'], pc)
        # a `return` inside a closure returns from the closure only
        rets = self.fr.returns[rets_mark:]
        del self.fr.returns[rets_mark:]
        for (rpc, rv) in rets:
            if rv is not None:
                val = mk_ite(rpc, rv, val) if (val is not None and val[0] != 'never') else rv
        return val, cont

    def elem_of(self, coll, node, pc):
        """(element term, facts formula) for one iteration over the collection term"""
        h = coll[0] if isinstance(coll, tuple) and coll else None
        if h == 'local':
            recs = self.fr.local_colls.get(coll[2], [])
            pushes = [r for r in recs if r['method'] in ('push', 'insert', 'push_back')]
            if len(pushes) == 1:
                r = pushes[0]
                return r['value'], r['pc']
            # several push sites in the same loop, one per path (`if refused { v.push(A); continue } v.push(B)`): the element is
            # whichever value its path pushed
            if 2 <= len(pushes) <= 4 and all(r['value'] is not None for r in pushes) and \
                    len({tuple(l[1] for l in r['loops']) for r in pushes}) == 1 and pushes[0]['loops'] and \
                    all(sat(And(a['pc'], b['pc'])) is None for i, a in enumerate(pushes) for b in pushes[i + 1:]):
                val = pushes[-1]['value']
                for r in reversed(pushes[:-1]):
                    val = mk_ite(r['pc'], r['value'], val)
                return val, Or(*[r['pc'] for r in pushes])
            return ('elem', coll), T
        if h == 'keys':
            e = ('elem', coll)
            return e, Atom(('is', ('get', coll[1], e), 'Some'))
        if h == 'values':
            k = ('elem', ('keys', coll[1]))
            return ('idx', coll[1], k), Atom(('is', ('get', coll[1], k), 'Some'))
        if h == 'enum':
            e, f = self.elem_of(coll[1], node, pc)
            return ('tuple', ('index_of', coll[1]), e), f
        if h == 'zip':
            a, fa = self.elem_of(coll[1], node, pc)
            b, fb = self.elem_of(coll[2], node, pc)
            return ('tuple', a, b), And(fa, fb)
        if h == 'mapped':
            return coll[2], coll[3]
        if h == 'chunks':
            return ('chunk_of', coll[1]), T
        if h == 'chunk_of':
            return self.elem_of(coll[1], node, pc)
        if h == 'hashmap':
            k = ('elem', ('keys', coll[1]))
            return ('tuple', k, ('idx', coll[1], k)), Atom(('is', ('get', coll[1], k), 'Some'))
        # map-typed collections iterate as (key, value)
        ty = self.tystr(ir.strip(node)) if node is not None else ''
        if _is_map_type(ty):
            k = ('elem', ('keys', coll))
            return ('tuple', k, ('idx', coll, k)), Atom(('is', ('get', coll, k), 'Some'))
        return ('elem', coll), T

    def model_call(self, n, fn, path, name, args, pc):
        """library/crate call model: returns the value term (and records events)"""
        recv = args[0] if args else None
        recv_ty = self.tystr(ir.strip(n['args'][0])) if n['args'] else ''
        krate = fn.get('krate', '')
        is_local = krate == 'simple_irc_server'
        data = dict(callee=path, name=name, args=args, recv_ty=recv_ty, local=is_local, trait=fn.get('trait'),
                    impl_self=fn.get('impl_self'))

        # ---- state lock acquisition
        if path.startswith('tokio::sync::RwLock') and name in ('read', 'write', 'try_read', 'try_write',
                                                                'blocking_read', 'blocking_write'):
            self.guard_counter += 1
            kind = 'write' if 'write' in name else 'read'
            gid = (kind, self.guard_counter)
            self.emit('lock', n, pc, mode=kind, gid=gid, on=recv, how=name)
            self.guards.append(gid)
            g = ('state',) if ('VolatileState' in recv_ty or 'VolatileState' in self.tystr(n)) else ('guard', recv)
            if name.startswith('try_'):
                # Result<guard, TryLockError>: acquired or not is not known statically
                return mk_ite(Atom(('acquired', gid)), ('ok', g), ('err', ('opaque', 'would-block')))
            return g

        # ---- explicit drop of a guard
        if path in ('std::mem::drop', 'core::mem::drop') and args and args[0] == ('state',):
            if self.guards:
                self.guards.pop()
            self.emit('call', n, pc, **data)
            return ('unit',)

        # ---- closures handed to combinators
        cl = [self.closure_def(a) for a in args]
        ev = None

        if is_local:
            ev = self.emit('call', n, pc, **data)
            if self.should_inline(path) and len(self.frames) <= self.max_depth:
                val, c = self.call_local(path, args, pc, arg_nodes=n.get('args'))
                ev.data['inlined'] = True
                ev.data['value'] = val
                if val is not None:
                    return val
            r = ('call', path) + tuple(args)
            if self.is_bool(n):
                return mk_bool(call_atom(r))
            return r

        # ---- writes spelled as method / function calls: `place.clone_from(&v)`, `opt.replace(v)`, `opt.insert(v)`,
        #      `mem::replace(&mut place, v)` are assignments to the place
        def _place_node(a):
            while isinstance(a, dict) and a.get('k') in ('Deref', 'Borrow', 'Scope', 'Use') and 'e' in a:
                a = a['e']
            return a
        if name == 'clone_from' and len(args) == 2 and not is_local:
            self.emit('assign', n, pc, lhs=recv, rhs=args[1], lhs_node=_place_node(n['args'][0]), via=name)
            return ('unit',)
        if path in ('std::mem::replace', 'core::mem::replace') and len(args) == 2:
            self.emit('assign', n, pc, lhs=args[0], rhs=args[1], lhs_node=_place_node(n['args'][0]), via='mem::replace')
            return ('old', args[0])
        if _is_opt(recv_ty) and name in ('replace', 'insert') and len(args) == 2:
            self.emit('assign', n, pc, lhs=recv, rhs=('some', args[1]), lhs_node=_place_node(n['args'][0]), via=name)
            return ('old', recv) if name == 'replace' else args[1]

        # a function item handed to a combinator (`map_or_else(String::new, ..)`, `unwrap_or_else(Vec::new)`) is applied like a closure
        def _fnref_call(a, fargs):
            if isinstance(a, tuple) and a[:1] == ('fnref',):
                if not fargs and a[1].split('::')[-1] in ('new', 'default') and ('String' in a[1] or 'Vec' in a[1] or 'Hash' in a[1]):
                    return ('fresh', a[1].rsplit('::', 1)[0], n.get('hid', id(n)))
                return ('call', a[1]) + tuple(fargs)
            return None

        # ---- Option / Result
        if _is_opt(recv_ty) or _is_res(recv_ty):
            okv = 'Some' if _is_opt(recv_ty) else 'Ok'
            if name in ('unwrap', 'expect', 'unwrap_unchecked'):
                self.emit('unwrap', n, pc, recv=recv, recv_ty=recv_ty, name=name)
                return payload(recv, okv)
            if name in ('is_some', 'is_ok'):
                return mk_bool(is_variant(recv, okv))
            if name in ('is_none', 'is_err'):
                return mk_bool(Not(is_variant(recv, okv)))
            if name in ('as_ref', 'as_mut', 'as_deref', 'as_deref_mut', 'copied', 'cloned', 'clone', 'ok'):
                return recv
            if name == 'err' and _is_res(recv_ty) and len(args) == 1:
                # Result<T, E> -> Option<E>
                def _to_err(r):
                    if isinstance(r, tuple) and r:
                        if r[0] == 'ok':
                            return ('none',)
                        if r[0] == 'err':
                            return ('some', r[1])
                        if r[0] == 'ite':
                            return mk_ite(r[1], _to_err(r[2]), _to_err(r[3]))
                    return mk_ite(is_variant(r, 'Ok'), ('none',), ('some', ('err_of', r)))
                return _to_err(recv)
            if name == 'take':
                self.emit('call', n, pc, **data)
                return recv
            if name in ('get_or_insert_with', 'get_or_insert', 'get_or_insert_default') and _is_opt(recv_ty):
                # `place.get_or_insert_with(f)`: the place is made Some (an effect on it) and its payload is handed out
                self.emit('call', n, pc, **data)
                return payload(recv, okv)
            if name in ('unwrap_or', 'unwrap_or_default', 'unwrap_or_else'):
                dflt = args[1] if len(args) > 1 else ('default',)
                if name == 'unwrap_or_else' and cl[1:] and cl[1]:
                    dflt, _ = self.apply_closure(cl[1], [], And(pc, Not(is_variant(recv, okv))))
                elif name == 'unwrap_or_else' and len(args) > 1 and _fnref_call(args[1], []) is not None:
                    dflt = _fnref_call(args[1], [])
                return mk_ite(is_variant(recv, okv), payload(recv, okv), dflt)
            if name == 'or':
                return mk_ite(is_variant(recv, okv), recv, args[1])
            if name in ('is_some_and', 'is_ok_and') and len(args) == 2 and cl[1]:
                cv, _ = self.apply_closure(cl[1], [payload(recv, okv)], And(pc, is_variant(recv, okv)))
                return mk_bool(And(is_variant(recv, okv), as_formula(cv)))
            if name == 'is_none_or' and len(args) == 2 and cl[1]:
                cv, _ = self.apply_closure(cl[1], [payload(recv, okv)], And(pc, is_variant(recv, okv)))
                return mk_bool(Or(Not(is_variant(recv, okv)), as_formula(cv)))
            if name == 'map_or_else' and len(args) == 3 and (cl[1] or _fnref_call(args[1], []) is not None) and cl[2]:
                if cl[1]:
                    dv, _ = self.apply_closure(cl[1], [], And(pc, Not(is_variant(recv, okv))))
                else:
                    dv = _fnref_call(args[1], [])
                cv, _ = self.apply_closure(cl[2], [payload(recv, okv)], And(pc, is_variant(recv, okv)))
                return mk_ite(is_variant(recv, okv), cv, dv)
            if name == 'map_or' and len(args) == 3 and cl[2]:
                cv, _ = self.apply_closure(cl[2], [payload(recv, okv)], And(pc, is_variant(recv, okv)))
                return mk_ite(is_variant(recv, okv), cv, args[1])
            if name in ('map', 'and_then', 'filter', 'inspect') and len(args) == 2 and cl[1]:
                cv, _ = self.apply_closure(cl[1], [payload(recv, okv)], And(pc, is_variant(recv, okv)))
                if name == 'map':
                    if _is_opt(recv_ty):
                        return mk_ite(is_variant(recv, okv), ('some', cv), ('none',))
                    return mk_ite(is_variant(recv, okv), ('ok', cv), recv)
                if name == 'filter':
                    return mk_ite(And(is_variant(recv, okv), as_formula(cv)), recv, ('none',))
                return mk_ite(is_variant(recv, okv), cv, recv)
            if name in ('map_err', 'or_else') and len(args) == 2 and cl[1]:
                cv, _ = self.apply_closure(cl[1], [('err_of', recv)], And(pc, Not(is_variant(recv, okv))))
                if name == 'map_err':
                    return recv
                return mk_ite(is_variant(recv, okv), recv, cv)
            if name == 'transpose':
                return recv

        # ---- maps and sets
        # <F as Fn>::call(&f, (args,)) on a closure value
        if name in ('call', 'call_mut', 'call_once') and cl and cl[0] and ('Fn' in (fn.get('trait') or '') or 'ops::function' in path):
            targs = list(args[1][1:]) if len(args) > 1 and isinstance(args[1], tuple) and args[1][:1] == ('tuple',) else list(args[1:])
            val, _ = self.apply_closure(cl[0], targs, pc)
            return val
        # bool::then(|| v) / bool::then_some(v)
        if name == 'then' and len(args) == 2 and cl[1] and (recv_ty or '').replace('&', '').strip() == 'bool':
            cond = as_formula(recv)
            cv, _ = self.apply_closure(cl[1], [], And(pc, cond))
            return mk_ite(cond, ('some', cv), ('none',))
        if name == 'then_some' and len(args) == 2 and (recv_ty or '').replace('&', '').strip() == 'bool':
            return mk_ite(as_formula(recv), ('some', args[1]), ('none',))
        # entry API: map.entry(k).or_default() / or_insert(v) / or_insert_with(f) is the slot of k (created when absent)
        if name in ('or_default', 'or_insert', 'or_insert_with') and isinstance(recv, tuple) and recv[:1] == ('call',) and \
                recv[1].split('::')[-1] == 'entry' and len(recv) >= 4:
            self.emit('call', n, pc, **data)
            return ('idx', recv[2], recv[3])
        if name == 'contains' and len(args) == 2 and not cl[1] and ('str' in (recv_ty or '') or 'String' in (recv_ty or '')) \
                and isinstance(args[1], tuple) and args[1][:1] == ('array',) and len(args[1]) > 1 \
                and all(isinstance(a, tuple) and a[:1] == ('lit',) and isinstance(a[1], str) and len(a[1]) == 1 for a in args[1][1:]):
            # str::contains(['a', 'b', ..]) (a char-set pattern): contains 'a' or contains 'b' ..
            return mk_bool(Or(*[Atom(('is', ('get', recv, a), 'Some')) for a in args[1][1:]]))
        if name in ('contains_key', 'contains') and len(args) == 2 and _is_coll_type(recv_ty) and not cl[1]:
            if _is_map_type(recv_ty) or _is_set_type(recv_ty):
                self.emit('query', n, pc, coll=recv, key=args[1], name=name, recv_ty=recv_ty)
            # loop-carried state: a membership test inside a loop that itself inserts into / removes from the same container
            # sees the effects of earlier iterations; it is NOT the fact established before the loop (same canonical term), so it
            # gets a version tag of that loop.  (Facts taken before the loop and carried in as element facts stay unversioned.)
            ver = self._loop_mutates(n)
            if ver is not None:
                return mk_bool(Atom(('is', ('get', ('ver', recv, ver), args[1]), 'Some')))
            return mk_bool(Atom(('is', ('get', recv, args[1]), 'Some')))
        if name in ('get', 'get_mut') and len(args) == 2 and (_is_map_type(recv_ty) or _is_set_type(recv_ty)):
            self.emit('query', n, pc, coll=recv, key=args[1], name=name, recv_ty=recv_ty)
            return ('get', recv, args[1])
        if name == 'get' and len(args) == 2:
            self.emit('call', n, pc, **data)
            return ('get', recv, args[1])
        if name in ('keys', 'into_keys') and _is_map_type(recv_ty):
            return ('keys', recv)
        if name in ('values', 'values_mut', 'into_values') and _is_map_type(recv_ty):
            return ('values', recv)
        if name == 'is_empty' and len(args) == 1:
            return mk_bool(Atom(('empty', recv)))
        if name == 'len' and len(args) == 1:
            return ('len', recv)
        if name in ('is_disjoint',) and len(args) == 2:
            return mk_bool(Atom(('disjoint',) + tuple(sorted([recv, args[1]], key=repr))))

        # ---- comparisons through traits
        if fn.get('trait', '').endswith('cmp::PartialEq') or path.endswith('::eq') or path.endswith('::ne'):
            if name == 'eq' and len(args) == 2:
                return mk_bool(mk_eq(args[0], args[1]))
            if name == 'ne' and len(args) == 2:
                return mk_bool(Not(mk_eq(args[0], args[1])))
        if fn.get('trait', '').endswith('cmp::PartialOrd') and len(args) == 2:
            if name == 'lt':
                return mk_bool(Atom(('lt', args[0], args[1])))
            if name == 'gt':
                return mk_bool(Atom(('lt', args[1], args[0])))
            if name == 'le':
                return mk_bool(Not(Atom(('lt', args[1], args[0]))))
            if name == 'ge':
                return mk_bool(Not(Atom(('lt', args[0], args[1]))))
        if fn.get('trait', '').endswith('ops::Not') and len(args) == 1 and self.is_bool(n):
            return mk_bool(Not(as_formula(args[0])))

        # ---- indexing through the Index traits
        if fn.get('trait', '') in ('std::ops::Index', 'std::ops::IndexMut', 'core::ops::Index',
                                   'core::ops::IndexMut') and len(args) == 2:
            self.emit('index', n, pc, base=recv, index=args[1], base_ty=recv_ty, builtin=False)
            if _is_map_type(recv_ty):
                return ('idx', recv, args[1])
            return ('index', recv, args[1])

        # ---- iterator plumbing
        if name == 'enumerate' and len(args) == 1:
            return ('enum', recv)
        if name == 'zip' and len(args) == 2:
            return ('zip', recv, args[1])
        if name == 'chunks' and len(args) == 2:
            self.emit('call', n, pc, **data)
            return ('chunks', recv, args[1])
        if name in ('iter', 'iter_mut', 'into_iter') and _is_map_type(recv_ty):
            return ('hashmap', recv)
        # ---- pipelines over a small literal table: `[(A, &x.a), (B, &x.b)].iter().filter(..).filter_map(..).flatten().collect()`
        #      are evaluated row by row ('rows': conditional rows; 'union': conditional member collections)
        def _rows_of(t):
            if isinstance(t, tuple) and t and t[0] == 'array' and 1 <= len(t) - 1 <= 12:
                return [(T, r) for r in t[1:]]
            if isinstance(t, tuple) and t and t[0] == 'rows':
                return list(t[1:])
            return None
        if name in ('filter', 'map', 'filter_map') and len(args) == 2 and cl[1] and _rows_of(recv) is not None:
            out = []
            for c_, row in _rows_of(recv):
                cv, _ = self.apply_closure(cl[1], [row], And(pc, c_))
                if name == 'filter':
                    out.append((And(c_, as_formula(cv)), row))
                elif name == 'map':
                    out.append((c_, cv))
                else:
                    out.append((And(c_, is_variant(cv, 'Some')), payload(cv)))
            return ('rows',) + tuple(out)
        if name == 'flatten' and len(args) == 1 and isinstance(recv, tuple) and recv[:1] == ('rows',):
            return ('union',) + tuple(recv[1:])
        if name == 'collect' and isinstance(recv, tuple) and recv[:1] == ('union',):
            # the collected set is an accumulator filled by one `extend` per member collection
            loc = ('local', '<collected>', self._lid(('collect', n.get('hid', id(n)))))
            for c_, coll in recv[1:]:
                rec = dict(method='extend', value=coll, pc=And(pc, c_), loops=tuple(self.loops), node=n)
                self.fr.local_colls.setdefault(loc[2], []).append(rec)
                self.emit('local_mut', n, And(pc, c_), local=loc, method='extend', args=[coll])
            return loc
        if name in ('for_each', 'try_for_each') and len(args) == 2 and cl[1] and isinstance(recv, tuple) and recv[:1] in (('rows',), ('union',)):
            for c_, item in recv[1:]:
                if recv[0] == 'rows':
                    self.apply_closure(cl[1], [item], And(pc, c_))
                else:
                    e, facts = self.elem_of(item, None, And(pc, c_))
                    self.loops.append(('for', n.get('hid'), item, n))
                    self.apply_closure(cl[1], [e], And(pc, c_, facts))
                    self.loops.pop()
            self.emit('call', n, pc, **data)
            return ('call', path, recv) if name == 'try_for_each' else ('unit',)
        if name == 'map' and len(args) == 2 and not cl[1] and isinstance(args[1], tuple) and args[1][:1] == ('fnref',) and not _is_opt(recv_ty) \
                and not _is_res(recv_ty):
            # `.map(String::as_str)`, `.map(ToString::to_string)`: a function item as the mapping
            fname = args[1][1].split('::')[-1]
            if fname in IDENTITY_METHODS:
                return recv
            e, facts = self.elem_of(recv, n['args'][0], pc)
            return ('mapped', recv, ('call', args[1][1], e), facts)
        if name in ('filter', 'map', 'filter_map') and len(args) == 2 and cl[1] and not _is_opt(recv_ty):
            # lazy adaptors: the closure body is walked once, now (its events belong to the pipeline),
            # and the resulting element value / facts are cached in the term
            e, facts = self.elem_of(recv, n['args'][0], pc)
            self.loops.append(('for', n.get('hid'), recv, n))
            cv, _ = self.apply_closure(cl[1], [e], And(pc, facts))
            self.loops.pop()
            if name == 'filter':
                return ('mapped', recv, e, And(facts, as_formula(cv)))
            if name == 'map':
                return ('mapped', recv, cv, facts)
            return ('mapped', recv, payload(cv), And(facts, is_variant(cv, 'Some')))
        if name in ('for_each', 'try_for_each') and len(args) == 2 and cl[1]:
            e, facts = self.elem_of(recv, n['args'][0], pc)
            self.loops.append(('for', n.get('hid'), recv, n))
            self.apply_closure(cl[1], [e], And(pc, facts))
            self.loops.pop()
            self.emit('call', n, pc, **data)
            if name == 'try_for_each':
                return ('call', path, recv)
            return ('unit',)
        if name == 'contains' and len(args) == 2 and cl[1] and ('str' in (recv_ty or '') or 'String' in (recv_ty or '')):
            # str::contains(|c| ..)  ==  str::find(|c| ..).is_some()
            e, facts = self.elem_of(recv, n['args'][0], pc)
            self.loops.append(('for', n.get('hid'), recv, n))
            cv, _ = self.apply_closure(cl[1], [e], And(pc, facts))
            self.loops.pop()
            return mk_bool(Atom(('is', ('find', recv, as_formula(cv)), 'Some')))
        if name in ('any', 'all', 'find', 'position') and len(args) == 2 and cl[1]:
            e, facts = self.elem_of(recv, n['args'][0], pc)
            self.loops.append(('for', n.get('hid'), recv, n))
            cv, _ = self.apply_closure(cl[1], [e], And(pc, facts))
            self.loops.pop()
            body = as_formula(cv)
            if name == 'any':
                return mk_bool(Atom(('any', recv, body)))
            if name == 'all':
                return mk_bool(Not(Atom(('any', recv, Not(body)))))
            return ('find', recv, body)
        if name == 'flatten' and len(args) == 1 and ('option::Iter' in (recv_ty or '') or 'option::IntoIter' in (recv_ty or '')
                                                     or (recv_ty or '').startswith('std::option::Option<')):
            # opt.iter().flatten() walks the collection inside the option (nothing when it is None)
            return ('some_of', recv)
        if name in ('take', 'skip', 'step_by') and len(args) == 2 and 'Iterator' in (fn.get('trait') or ''):
            return recv
        if name == 'next' and len(args) == 1:
            ev = self.emit('call', n, pc, **data)
            return ('next', recv, ev.seq)

        # ---- local accumulators (Vec/String/HashSet built in this function)
        if isinstance(recv, tuple) and recv and recv[0] == 'local':
            if name in ('push', 'insert', 'push_str', 'push_back', 'extend', 'clear', 'remove', 'reserve',
                        'sort', 'drain', 'add_assign'):
                rec = dict(method=name, value=args[1] if len(args) > 1 else None, pc=pc,
                           loops=tuple(self.loops), node=n)
                self.fr.local_colls.setdefault(recv[2], []).append(rec)
                self.emit('local_mut', n, pc, local=recv, method=name, args=args[1:])
                return ('unit',)

        # ---- identity-like conversions
        if name in IDENTITY_METHODS and len(args) >= 1:
            if name in ('from', 'from_iter') and len(args) == 1:
                return args[0]
            if len(args) == 1:
                return recv

        # ---- constructors of empty local collections
        if name in ('new', 'with_capacity', 'default') and not args or (name == 'with_capacity'):
            ty = self.tystr(n)
            if ty.startswith(('std::vec::Vec<', 'std::string::String', 'std::collections::HashSet<',
                              'std::collections::HashMap<', 'alloc::vec::Vec<', 'alloc::string::String')):
                self.emit('call', n, pc, **data)
                return ('fresh', ty, n.get('hid', id(n)))

        ev = self.emit('call', n, pc, **data)
        r = ('call', path) + tuple(args)
        if self.is_bool(n):
            return mk_bool(Atom(r))
        return r

    def should_inline(self, path):
        if path in self.inline:
            return True
        last = path.split('::')[-1]
        if last in self.inline:
            return True
        if self.inline_pred is not None and self.inline_pred(path):
            return True
        # a crate-local function that did not exist when the rules were written (an extracted helper) has no summary any rule
        # knows about: look through it
        kf = _known_fns()
        if kf and path in self.prog.bodies and path not in kf and '::test::' not in path and '{closure' not in path:
            return True
        return False


_KNOWN_FNS = None


def _known_fns():
    global _KNOWN_FNS
    if _KNOWN_FNS is None:
        p = _os.path.join(_os.path.dirname(_os.path.dirname(_os.path.abspath(__file__))), 'rules', 'known_fns.txt')
        try:
            _KNOWN_FNS = set(l.strip() for l in open(p) if l.strip())
        except OSError:
            _KNOWN_FNS = set()
    return _KNOWN_FNS


def _simple_variant(p):
    """variant name if p is `Variant(..)` / `&Variant{..}` whose sub-patterns are irrefutable bindings"""
    while p.get('k') == 'DerefPat':
        p = p['sub']
    if p.get('k') != 'Variant':
        return None
    for f in p['fields']:
        q = f['p']
        while q.get('k') == 'DerefPat':
            q = q['sub']
        if q.get('k') not in ('Bind', 'Wild') or 'sub' in q:
            return None
    return p['variant']


def _boolify(t):
    if t[0] == 'ite':
        return ('ite', t[1], _boolify(t[2]), _boolify(t[3]))
    if t[0] == BOOL:
        return t
    return mk_bool(Atom(('flag', t)))


def _parse_const(s):
    s = s.strip()
    if len(s) >= 3 and s[0] == "'" and s[-1] == "'":
        body = s[1:-1]
        if body.startswith('\\') and len(body) == 2:
            return {'n': '\n', 'r': '\r', 't': '\t', '\\': '\\', "'": "'", '0': '\0'}.get(body[1], body)
        return body
    if len(s) >= 2 and s[0] == '"' and s[-1] == '"':
        return s[1:-1]
    if s.startswith('Branch([') and s.endswith('): str'):
        inner = s[len('Branch(['):s.rindex('])')]
        try:
            bs = bytes(int(x.strip().split('_')[0]) for x in inner.split(',') if x.strip())
            return bs.decode('utf-8', 'replace')
        except ValueError:
            return s
    if s in ('true', 'false'):
        return s == 'true'
    # integer with optional type suffix, e.g. 35_u8
    num = s.split('_')[0]
    try:
        return int(num)
    except ValueError:
        return s


def _is_opt(ty):
    t = ty.lstrip('&').replace('mut ', '')
    return t.startswith(OPTION_TYPES)


def _is_res(ty):
    t = ty.lstrip('&').replace('mut ', '')
    return t.startswith(RESULT_TYPES)


def _base_ty(ty):
    t = ty
    while t.startswith('&'):
        t = t[1:].lstrip()
        if t.startswith("'"):
            t = t.split(' ', 1)[1] if ' ' in t else t
        if t.startswith('mut '):
            t = t[4:]
    return t


def _is_map_type(ty):
    return _base_ty(ty).startswith(('std::collections::HashMap<', 'std::collections::BTreeMap<'))


def _is_set_type(ty):
    return _base_ty(ty).startswith(('std::collections::HashSet<', 'std::collections::BTreeSet<'))


def _is_coll_type(ty):
    t = _base_ty(ty)
    return _is_map_type(ty) or _is_set_type(ty) or t.startswith(('std::vec::Vec<', '[')) or t == 'str' \
        or t.startswith('std::string::String')


import atexit as _atexit
import os as _os
_COVER = set() if _os.environ.get('VERIF_COVERAGE') else None
if _COVER is not None:
    def _dump_cover():
        with open(_os.environ['VERIF_COVERAGE'], 'a') as f:
            f.write('\n'.join(sorted(_COVER)) + '\n')
    _atexit.register(_dump_cover)


def analyse(prog, fn_path, inline=(), args=None, max_depth=3, inline_pred=None):
    w = Walker(prog, inline=inline, max_depth=max_depth, inline_pred=inline_pred)
    # seed frame stack with a root so that emit() works inside call_local
    val, _ = w.call_local(fn_path, args, T, top=True)
    return w, val
