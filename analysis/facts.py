"""Produce (and cache by content hash) the facts file for /repo's *current* working tree.

Every check calls ensure_facts(cfg): the hash covers every file under /repo/src plus the
manifest and lock file and the extractor binary, so any edit to the repository triggers a
fresh `cargo +nightly check` through the ircx driver.  Nothing is read from a snapshot.
"""
import fcntl
import hashlib
import os
import subprocess
import sys
import time

VERIF = os.path.dirname(os.path.dirname(os.path.abspath(__file__)))
REPO = os.environ.get('VERIF_REPO', '/repo')
CACHE = os.path.join(VERIF, '.cache')
KEEP_FACTS = int(os.environ.get('VERIF_KEEP_FACTS', '24'))
DRIVER = os.path.join(VERIF, 'extractor', 'target', 'release', 'ircx')

CONFIGS = {
    'default': [],
    'tls_rustls': ['--features', 'tls_rustls'],
    'tls_openssl': ['--features', 'tls_openssl'],
    'dns_lookup': ['--features', 'dns_lookup'],
}


class FactsError(Exception):
    pass


def sysroot_lib():
    out = subprocess.run(['rustc', '+nightly', '--print', 'sysroot'], capture_output=True, text=True)
    if out.returncode != 0:
        raise FactsError('nightly toolchain not available: ' + out.stderr)
    return os.path.join(out.stdout.strip(), 'lib')


def build_driver():
    if os.path.exists(DRIVER):
        src = os.path.join(VERIF, 'extractor', 'src', 'main.rs')
        if os.path.getmtime(DRIVER) >= os.path.getmtime(src):
            return
    env = dict(os.environ, CARGO_NET_OFFLINE='true')
    r = subprocess.run(['cargo', 'build', '--release', '--offline'], cwd=os.path.join(VERIF, 'extractor'),
                       env=env, capture_output=True, text=True)
    if r.returncode != 0:
        raise FactsError('cannot build extractor:\n' + r.stderr[-4000:])


def tree_hash(cfg):
    h = hashlib.sha256()
    h.update(cfg.encode())
    paths = []
    for root, dirs, files in os.walk(os.path.join(REPO, 'src')):
        dirs.sort()
        for f in sorted(files):
            paths.append(os.path.join(root, f))
    for extra in ('Cargo.toml', 'Cargo.lock', 'build.rs'):
        p = os.path.join(REPO, extra)
        if os.path.exists(p):
            paths.append(p)
    for p in paths:
        h.update(os.path.relpath(p, REPO).encode())
        with open(p, 'rb') as f:
            h.update(hashlib.sha256(f.read()).digest())
    with open(DRIVER, 'rb') as f:
        h.update(hashlib.sha256(f.read()).digest())
    return h.hexdigest()[:24]


def ensure_facts(cfg='default', verbose=False):
    """returns path of the facts JSON for the current /repo tree in build configuration cfg"""
    os.makedirs(os.path.join(CACHE, 'facts'), exist_ok=True)
    os.makedirs(os.path.join(CACHE, 'target'), exist_ok=True)
    lock = open(os.path.join(CACHE, 'lock.' + cfg), 'w')
    fcntl.flock(lock, fcntl.LOCK_EX)
    try:
        build_driver()
        hsh = tree_hash(cfg)
        out = os.path.join(CACHE, 'facts', '%s-%s.json' % (cfg, hsh))
        if os.path.exists(out) and os.path.getsize(out) > 0:
            os.utime(out)
            return out
        target = os.path.join(CACHE, 'target', cfg)
        os.makedirs(target, exist_ok=True)
        # defeat cargo's freshness cache for the member crate: the driver must really run
        fp = os.path.join(target, 'debug', '.fingerprint')
        if os.path.isdir(fp):
            for d in os.listdir(fp):
                if d.startswith('simple-irc-server-'):
                    subprocess.run(['rm', '-rf', os.path.join(fp, d)])
        nonce = '%s-%d' % (hsh, int(time.time() * 1000))
        tmp = out + '.tmp'
        if os.path.exists(tmp):
            os.remove(tmp)
        env = dict(os.environ)
        env.update({
            'LD_LIBRARY_PATH': sysroot_lib() + ':' + env.get('LD_LIBRARY_PATH', ''),
            'CARGO_NET_OFFLINE': 'true',
            'RUSTFLAGS': '-Zmir-opt-level=0 -Awarnings',
            'RUSTC_WORKSPACE_WRAPPER': DRIVER,
            'CARGO_TARGET_DIR': target,
            'IRCX_OUT': tmp,
            'IRCX_NONCE': nonce,
        })
        env.pop('RUSTC_WRAPPER', None)
        cmd = ['cargo', '+nightly', 'check', '--offline', '--bin', 'simple-irc-server'] + CONFIGS[cfg]
        t0 = time.time()
        r = subprocess.run(cmd, cwd=REPO, env=env, capture_output=True, text=True)
        if verbose:
            sys.stderr.write('[facts] %s: cargo check %.1fs rc=%d\n' % (cfg, time.time() - t0, r.returncode))
        if r.returncode != 0:
            raise FactsError('the repository does not compile in configuration %s:\n%s' % (cfg, r.stderr[-6000:]))
        if not os.path.exists(tmp):
            raise FactsError('extractor produced no facts file (driver skipped?)\n' + r.stderr[-2000:])
        with open(tmp) as f:
            head = f.read(200)
        if nonce not in head:
            raise FactsError('facts file does not carry this run\'s nonce (stale output)')
        os.replace(tmp, out)
        # keep the cache small: only the most recently used facts of this configuration stay (several trees are looked at in turn
        # when the self-tests run checks against scratch copies side by side)
        mine = []
        for f in os.listdir(os.path.join(CACHE, 'facts')):
            if f.startswith(cfg + '-') and f != os.path.basename(out) and f.endswith('.json'):
                q = os.path.join(CACHE, 'facts', f)
                try:
                    mine.append((os.path.getmtime(q), q))
                except OSError:
                    pass
        for _, q in sorted(mine, reverse=True)[KEEP_FACTS - 1:]:
            try:
                os.remove(q)
            except OSError:
                pass
        return out
    finally:
        fcntl.flock(lock, fcntl.LOCK_UN)
        lock.close()


if __name__ == '__main__':
    cfgs = sys.argv[1:] or ['default']
    for c in cfgs:
        print(ensure_facts(c, verbose=True))
