"""Rule bookkeeping, known-findings matching, evidence and verdict output."""
import json
import os
import time

VERIF = os.path.dirname(os.path.dirname(os.path.abspath(__file__)))
# self-test runs (mutants on a scratch copy) redirect their output so that they never touch the real evidence
OUT = os.environ.get('VERIF_OUT_DIR') or VERIF


class AnchorLost(Exception):
    """a rule's anchor (function, field, site population) is not present any more"""


class Violation:
    def __init__(self, prop, rule, key, what, loc=None, detail=None):
        self.prop = prop
        self.rule = rule
        self.key = key
        self.what = what
        self.loc = loc
        self.detail = detail or {}

    def as_json(self):
        return dict(property=self.prop, rule=self.rule, key=self.key, what=self.what, location=self.loc,
                    detail=self.detail)


class Rule:
    def __init__(self, check, rid, title, floor=0, kind='required-guard'):
        self.check = check
        self.rid = rid
        self.title = title
        self.floor = floor
        self.kind = kind
        self.instances = []
        self.violations = []
        self.observations = []
        self.undecided = []
        self.keys = set()

    def instance(self, desc, key=None):
        """one evaluated rule instance (site / obligation / table row)"""
        self.instances.append(desc)
        if key is not None:
            self.keys.add(key)

    def ok(self, desc):
        self.instance(desc)

    def violation(self, key, what, loc=None, **detail):
        v = Violation(self.check.prop, self.rid, key, what, loc, detail)
        # a site is reported once even when reached through several paths / configurations
        if any(x.key == key for x in self.violations):
            return
        self.violations.append(v)

    def observe(self, text):
        if text not in self.observations:
            self.observations.append(text)

    def undecide(self, text):
        if text not in self.undecided:
            self.undecided.append(text)


class Check:
    def __init__(self, prop, tier):
        self.prop = prop
        self.tier = tier
        self.rules = []
        self.assumptions = []
        self.decides = []
        self.does_not_decide = []
        self.functions = set()
        self.configs = []
        self.t0 = time.time()
        self.errors = []

    def rule(self, rid, title, floor=0, kind='required-guard'):
        r = Rule(self, rid, title, floor, kind)
        self.rules.append(r)
        return r

    def assume(self, text):
        if text not in self.assumptions:
            self.assumptions.append(text)

    def analysed(self, fn):
        self.functions.add(fn)

    def error(self, text):
        self.errors.append(text)


def load_known():
    p = os.path.join(VERIF, 'known_findings.json')
    if not os.path.exists(p):
        return {'findings': [], 'fixed': []}
    with open(p) as f:
        return json.load(f)


def finish(check):
    """print verdict lines, write evidence, return exit code"""
    known = load_known()
    known_keys = {(k['property'], k['key']): k for k in known.get('findings', [])}
    exit_code = 0
    all_viol = []
    for r in check.rules:
        if len(r.instances) < r.floor:
            check.error('rule %s: %d instances found, floor %d (anchor lost: %s)' % (
                r.rid, len(r.instances), r.floor, r.title))
        all_viol.extend(r.violations)
    known_hit = []
    new = []
    for v in all_viol:
        if (v.prop, v.key) in known_keys:
            known_hit.append((v, known_keys[(v.prop, v.key)]))
        else:
            new.append(v)
    printed = set()
    for v, k in known_hit:
        if v.key in printed:
            continue
        printed.add(v.key)
        print('KNOWN-FINDING: property=%s %s [%s %s]' % (v.prop, k.get('what', v.what), v.rule.split('@')[0], v.key))
    rdir = os.path.join(OUT, 'replays')
    if new:
        os.makedirs(rdir, exist_ok=True)
    seen_new = set()
    uniq = []
    for v in new:
        if v.key not in seen_new:
            seen_new.add(v.key)
            uniq.append(v)
    new = uniq
    for i, v in enumerate(new):
        path = os.path.join(rdir, '%s-%d.json' % (check.prop, i))
        with open(path, 'w') as f:
            json.dump(v.as_json(), f, indent=1, default=str)
        print('VIOLATION property=%s replay=%s' % (check.prop, path))
        print('  rule %s at %s: %s' % (v.rule, v.loc, v.what))
        print('  key: %s' % v.key)
        exit_code = 1
    for e in check.errors:
        print('ERROR property=%s %s' % (check.prop, e))
    if check.errors and exit_code == 0:
        exit_code = 2
    write_evidence(check, len(new), known_hit)
    n_inst = sum(len(r.instances) for r in check.rules)
    print('%s %s: %d rules, %d instances, %d known findings, %d new violations, %.1fs' % (
        check.prop, 'PASS' if exit_code == 0 else ('FAIL' if exit_code == 1 else 'ERROR'),
        len(check.rules), n_inst, len(known_hit), len(new), time.time() - check.t0))
    return exit_code


def write_evidence(check, n_new, known_hit):
    os.makedirs(os.path.join(OUT, 'evidence'), exist_ok=True)
    n_inst = sum(len(r.instances) for r in check.rules)
    distinct = set()
    for r in check.rules:
        for d in r.instances:
            distinct.add((r.rid, d))
    samples = []
    for r in check.rules:
        for d in r.instances[:2]:
            samples.append({'rule': r.rid, 'instance': d})
    rules = []
    for r in check.rules:
        rules.append({
            'id': r.rid, 'title': r.title, 'kind': r.kind, 'instances': len(r.instances), 'floor': r.floor,
            'violations': [v.key for v in r.violations], 'observations': r.observations,
            'undecided': r.undecided,
        })
    ev = {
        'property_id': check.prop,
        'tier': check.tier,
        'seed': int(os.environ.get('VERIF_SEED', '0') or 0),
        'level': 'other',
        'coverage': {
            'explanation': ('Static rule checking over the type-checked program (THIR/MIR exported by the ircx '
                            'rustc driver from /repo\'s current tree). Decided: ' + '; '.join(check.decides) +
                            '. Not decided by this technique: ' + '; '.join(check.does_not_decide) + '.'),
            'evaluations': n_inst,
            'distinct_nontrivial': len(distinct),
            'rule': ('one evaluation = one rule instance (an effect/reply/send site with its path condition, a '
                     'panic obligation, a table row or a sibling pair) found in the current tree; distinct = '
                     'distinct (rule, site description) pairs'),
            'samples': samples[:40],
            'obligations': n_inst,
            'discharged': n_inst - sum(len(r.violations) for r in check.rules),
            'rules': rules,
            'functions_analysed': sorted(check.functions),
            'build_configurations': check.configs,
            'known_findings_hit': [dict(rule=v.rule, key=v.key, what=k.get('what')) for v, k in known_hit],
            'exhaustive': True,
        },
        'assumptions': check.assumptions,
        'wall_s': round(time.time() - check.t0, 2),
        'violations': n_new,
    }
    with open(os.path.join(OUT, 'evidence', check.prop + '.json'), 'w') as f:
        json.dump(ev, f, indent=1, default=str)
