"""Entry point:  python3 -m analysis.check <PROPERTY> [--tier quick|thorough]

exit 0: every rule instance of the property holds on /repo's current tree
        (known findings are listed as KNOWN-FINDING lines)
exit 1: a violation not listed in known_findings.json (VIOLATION line + replay file)
exit 2: the tree does not compile / an anchor was lost / internal error (no verdict)
"""
import argparse
import importlib
import os
import sys
import traceback

VERIF = os.path.dirname(os.path.dirname(os.path.abspath(__file__)))
sys.path.insert(0, VERIF)

from analysis import facts, ir, report  # noqa: E402
from rules.common import Cx  # noqa: E402

THOROUGH_CONFIGS = ['default', 'tls_rustls', 'tls_openssl', 'dns_lookup']


def main():
    ap = argparse.ArgumentParser()
    ap.add_argument('prop')
    ap.add_argument('--tier', default=os.environ.get('VERIF_TIER', 'quick'))
    a = ap.parse_args()
    tier = a.tier if a.tier in ('quick', 'thorough') else 'quick'
    check = report.Check(a.prop, tier)
    try:
        mod = importlib.import_module('rules.' + a.prop)
        cfgs = ['default'] if tier == 'quick' else list(getattr(mod, 'CONFIGS', THOROUGH_CONFIGS))
        progs = {}
        for c in cfgs:
            progs[c] = ir.load(facts.ensure_facts(c))
        check.configs = cfgs
        cx = Cx(check, progs)
        mod.check(cx)
        # thorough tier: every rule of the property is evaluated again in each further build configuration (TLS back ends,
        # dns_lookup) as if it were the default one; rules are recorded as <id>@<cfg>, violations are keyed as in the default
        # configuration (a site is reported once)
        if tier == 'thorough':
            import rules.common as rc
            for c in cfgs:
                if c == 'default':
                    continue
                rc._DEP_CACHE.clear()
                sub = report.Check(a.prop, tier)
                try:
                    mod.check(Cx(sub, {'default': progs[c]}))
                except report.AnchorLost as e:
                    check.error('[%s] anchor lost: %s' % (c, e))
                for r in sub.rules:
                    if '@' in r.rid:
                        continue        # a rule that iterates the configurations itself
                    r.rid = '%s@%s' % (r.rid, c)
                    r.check = check
                    for v in r.violations:
                        v.rule = r.rid
                        v.detail = dict(v.detail or {}, config=c)
                    check.rules.append(r)
                for e in sub.errors:
                    check.error('[%s] %s' % (c, e))
    except facts.FactsError as e:
        print('ERROR property=%s cannot extract facts: %s' % (a.prop, e))
        sys.exit(2)
    except report.AnchorLost as e:
        check.error('anchor lost: %s' % e)
    except Exception:
        traceback.print_exc()
        check.error('internal error in the checker (see traceback)')
    sys.exit(report.finish(check))


if __name__ == '__main__':
    main()
