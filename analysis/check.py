"""Entry point:  python3 -m analysis.check <PROPERTY> [--tier quick|thorough]

exit 0: every rule instance of the property holds on /repo's current tree
        (known findings are listed as KNOWN-FINDING lines)
exit 1: a violation not listed in known_findings.json (VIOLATION line + replay file)
exit 2: the tree does not compile / an anchor was lost / internal error (no verdict)
"""
import argparse
import importlib
import os
import sys
import traceback

VERIF = os.path.dirname(os.path.dirname(os.path.abspath(__file__)))
sys.path.insert(0, VERIF)

from analysis import facts, ir, report  # noqa: E402
from rules.common import Cx  # noqa: E402

THOROUGH_CONFIGS = ['default', 'tls_rustls', 'tls_openssl', 'dns_lookup']


def main():
    ap = argparse.ArgumentParser()
    ap.add_argument('prop')
    ap.add_argument('--tier', default=os.environ.get('VERIF_TIER', 'quick'))
    a = ap.parse_args()
    tier = a.tier if a.tier in ('quick', 'thorough') else 'quick'
    check = report.Check(a.prop, tier)
    try:
        mod = importlib.import_module('rules.' + a.prop)
        cfgs = ['default'] if tier == 'quick' else list(getattr(mod, 'CONFIGS', THOROUGH_CONFIGS))
        progs = {}
        for c in cfgs:
            progs[c] = ir.load(facts.ensure_facts(c))
        check.configs = cfgs
        cx = Cx(check, progs)
        mod.check(cx)
    except facts.FactsError as e:
        print('ERROR property=%s cannot extract facts: %s' % (a.prop, e))
        sys.exit(2)
    except report.AnchorLost as e:
        check.error('anchor lost: %s' % e)
    except Exception:
        traceback.print_exc()
        check.error('internal error in the checker (see traceback)')
    sys.exit(report.finish(check))


if __name__ == '__main__':
    main()
