"""Propositional formulas over canonical atoms (engine A).

A formula is a nested tuple:
    T, F                      constants
    ('a', atom)               atom: any hashable term
    ('!', f)                  negation
    ('&', (f1, f2, ...))      conjunction
    ('|', (f1, f2, ...))      disjunction
Entailment/equivalence are decided by exhaustive case splitting over the atoms that
occur (a truth table with early pruning); no external solver is involved.
"""

T = ('T',)
F = ('F',)


def Atom(a):
    return ('a', a)


def Not(f):
    if f == T:
        return F
    if f == F:
        return T
    if f[0] == '!':
        return f[1]
    return ('!', f)


def And(*fs):
    out = []
    seen = set()
    stack = list(reversed(fs))
    while stack:
        f = stack.pop()
        if f == T:
            continue
        if f == F:
            return F
        if f[0] == '&':
            stack.extend(reversed(f[1]))
            continue
        if f in seen:
            continue
        if Not(f) in seen:
            return F
        seen.add(f)
        out.append(f)
    if not out:
        return T
    if len(out) == 1:
        return out[0]
    return ('&', tuple(out))


def Or(*fs):
    out = []
    seen = set()
    stack = list(reversed(fs))
    while stack:
        f = stack.pop()
        if f == F:
            continue
        if f == T:
            return T
        if f[0] == '|':
            stack.extend(reversed(f[1]))
            continue
        if f in seen:
            continue
        if Not(f) in seen:
            return T
        seen.add(f)
        out.append(f)
    if not out:
        return F
    if len(out) == 1:
        return out[0]
    # factor a common conjunct:  (p & a) | (p & !a)  ->  p
    if len(out) == 2:
        a, b = out
        ca = set(a[1]) if a[0] == '&' else {a}
        cb = set(b[1]) if b[0] == '&' else {b}
        common = ca & cb
        if common:
            ra = [x for x in (a[1] if a[0] == '&' else (a,)) if x not in common]
            rb = [x for x in (b[1] if b[0] == '&' else (b,)) if x not in common]
            rest = Or(And(*ra), And(*rb)) if (ra and rb) else T
            ordered = [x for x in (a[1] if a[0] == '&' else (a,)) if x in common]
            return And(*ordered, rest)
    return ('|', tuple(out))


def Implies(p, q):
    return Or(Not(p), q)


def Iff(p, q):
    return And(Implies(p, q), Implies(q, p))


def atoms(f, acc=None):
    if acc is None:
        acc = []
    k = f[0]
    if k == 'a':
        if f[1] not in acc:
            acc.append(f[1])
    elif k == '!':
        atoms(f[1], acc)
    elif k in '&|':
        for g in f[1]:
            atoms(g, acc)
    return acc


def subst(f, atom, val):
    """replace an atom by a constant and simplify"""
    k = f[0]
    if k == 'a':
        if f[1] == atom:
            return T if val else F
        return f
    if k == '!':
        return Not(subst(f[1], atom, val))
    if k == '&':
        return And(*[subst(g, atom, val) for g in f[1]])
    if k == '|':
        return Or(*[subst(g, atom, val) for g in f[1]])
    return f


def rename(f, fn):
    """apply fn to every atom (fn returns a formula)"""
    k = f[0]
    if k == 'a':
        return fn(f[1])
    if k == '!':
        return Not(rename(f[1], fn))
    if k == '&':
        return And(*[rename(g, fn) for g in f[1]])
    if k == '|':
        return Or(*[rename(g, fn) for g in f[1]])
    return f


class Budget(Exception):
    pass


def _sat(f, budget):
    """is f satisfiable?  returns a model (dict) or None"""
    if f == T:
        return {}
    if f == F:
        return None
    budget[0] -= 1
    if budget[0] < 0:
        raise Budget()
    # pick an atom: prefer one that appears at top level of a conjunction (unit-like)
    pick = None
    if f[0] == '&':
        for g in f[1]:
            if g[0] == 'a':
                pick = (g[1], True)
                break
            if g[0] == '!' and g[1][0] == 'a':
                pick = (g[1][1], False)
                break
    if pick is None:
        a = atoms(f)[0]
        pick = (a, True)
    a, first = pick
    for v in (first, not first):
        m = _sat(subst(f, a, v), budget)
        if m is not None:
            m[a] = v
            return m
    return None


def axioms_for(atom_list):
    """background constraints between atoms:
       ('is', t, V1) and ('is', t, V2) are mutually exclusive for V1 != V2;
       ('lt', a, b) and ('eq', a, b) exclusive; ('lt', a, b) and ('lt', b, a) exclusive."""
    ax = []
    by_term = {}
    for a in atom_list:
        if isinstance(a, tuple) and a and a[0] == 'is':
            by_term.setdefault(a[1], []).append(a)
    for t, lst in by_term.items():
        for i in range(len(lst)):
            for j in range(i + 1, len(lst)):
                if lst[i][2] != lst[j][2]:
                    ax.append(Not(And(Atom(lst[i]), Atom(lst[j]))))
    # x == 'a' and x == 'b' cannot both hold for distinct literals
    by_lhs = {}
    for a in atom_list:
        if isinstance(a, tuple) and len(a) == 3 and a[0] == 'eq' and isinstance(a[2], tuple) and a[2] and a[2][0] == 'lit':
            by_lhs.setdefault(a[1], []).append(a)
    for t, lst in by_lhs.items():
        for i in range(len(lst)):
            for j in range(i + 1, len(lst)):
                if lst[i][2] != lst[j][2]:
                    ax.append(Not(And(Atom(lst[i]), Atom(lst[j]))))
    aset = set(atom_list)
    for a in atom_list:
        if isinstance(a, tuple) and a and a[0] == 'lt':
            e1 = ('eq', a[1], a[2])
            e2 = ('eq', a[2], a[1])
            for e in (e1, e2):
                if e in aset:
                    ax.append(Not(And(Atom(a), Atom(e))))
            r = ('lt', a[2], a[1])
            if r in aset and r != a:
                ax.append(Not(And(Atom(a), Atom(r))))
    return And(*ax) if ax else T


def _tseitin(f):
    """CNF (list of int-literal lists) equisatisfiable with f; returns (clauses, atom->var, nvars)"""
    var_of = {}
    atom_var = {}
    clauses = []
    counter = [0]

    def new():
        counter[0] += 1
        return counter[0]

    def enc(g):
        if g in var_of:
            return var_of[g]
        k = g[0]
        if k == 'a':
            v = atom_var.get(g[1])
            if v is None:
                v = new()
                atom_var[g[1]] = v
            var_of[g] = v
            return v
        if k == '!':
            v = -enc(g[1])
            var_of[g] = v
            return v
        if k == 'T':
            v = new()
            clauses.append([v])
            var_of[g] = v
            return v
        if k == 'F':
            v = new()
            clauses.append([-v])
            var_of[g] = v
            return v
        subs = [enc(x) for x in g[1]]
        v = new()
        if k == '&':
            for x in subs:
                clauses.append([-v, x])
            clauses.append([v] + [-x for x in subs])
        else:
            for x in subs:
                clauses.append([v, -x])
            clauses.append([-v] + subs)
        var_of[g] = v
        return v

    root = enc(f)
    clauses.append([root])
    return clauses, atom_var, counter[0]


def _dpll(clauses, nvars, limit):
    """plain DPLL with unit propagation (exhaustive case split with pruning); model or None"""
    assign = [0] * (nvars + 1)     # 0 unassigned, 1 true, -1 false
    occ = {}
    for ci, c in enumerate(clauses):
        for l in c:
            occ.setdefault(l, []).append(ci)
    trail = []
    steps = [0]

    def value(l):
        a = assign[abs(l)]
        return a if l > 0 else -a

    def propagate(queue):
        while queue:
            l = queue.pop()
            v = value(l)
            if v == 1:
                continue
            if v == -1:
                return False
            assign[abs(l)] = 1 if l > 0 else -1
            trail.append(abs(l))
            for ci in occ.get(-l, ()):
                c = clauses[ci]
                unassigned = None
                sat_ = False
                n_un = 0
                for x in c:
                    vx = value(x)
                    if vx == 1:
                        sat_ = True
                        break
                    if vx == 0:
                        n_un += 1
                        unassigned = x
                if sat_:
                    continue
                if n_un == 0:
                    return False
                if n_un == 1:
                    queue.append(unassigned)
        return True

    units = [c[0] for c in clauses if len(c) == 1]
    if any(len(c) == 0 for c in clauses):
        return None
    if not propagate(list(units)):
        return None

    def solve():
        steps[0] += 1
        if steps[0] > limit:
            raise Budget()
        # pick an unassigned variable from the shortest unsatisfied clause
        best = None
        for c in clauses:
            sat_ = False
            un = []
            for x in c:
                vx = value(x)
                if vx == 1:
                    sat_ = True
                    break
                if vx == 0:
                    un.append(x)
            if sat_:
                continue
            if not un:
                return False
            if best is None or len(un) < len(best):
                best = un
                if len(best) == 2:
                    break
        if best is None:
            return True
        l = best[0]
        for cand in (l, -l):
            mark = len(trail)
            if propagate([cand]) and solve():
                return True
            while len(trail) > mark:
                assign[trail.pop()] = 0
        return False

    if solve():
        return assign
    return None


def sat(f, extra_axioms=T, limit=200000):
    """satisfiability by exhaustive case analysis over the atoms (Tseitin + DPLL); model dict or None"""
    g = And(f, extra_axioms)
    if g == F:
        return None
    ax = axioms_for(atoms(g))
    g = And(g, ax)
    if g == T:
        return {}
    if g == F:
        return None
    clauses, atom_var, nvars = _tseitin(g)
    a = _dpll(clauses, nvars, limit)
    if a is None:
        return None
    return {atom: (a[v] == 1) for atom, v in atom_var.items() if a[v] != 0}


def entails(p, q, extra_axioms=T):
    """p => q under the background axioms; returns (True, None) or (False, countermodel)"""
    m = sat(And(p, Not(q)), extra_axioms)
    if m is None:
        return True, None
    return False, m


def equivalent(p, q, extra_axioms=T):
    ok, m = entails(p, q, extra_axioms)
    if not ok:
        return False, ('lhs-only', m)
    ok, m = entails(q, p, extra_axioms)
    if not ok:
        return False, ('rhs-only', m)
    return True, None


def conjuncts(f):
    if f == T:
        return []
    if f[0] == '&':
        return list(f[1])
    return [f]


def show_term(t):
    if isinstance(t, tuple):
        if not t:
            return '()'
        h = t[0]
        if h == 'param':
            return '$' + str(t[1])
        if h == 'field':
            return show_term(t[1]) + '.' + str(t[2])
        if h == 'get':
            return show_term(t[1]) + '.get(' + show_term(t[2]) + ')'
        if h == 'idx':
            return show_term(t[1]) + '[' + show_term(t[2]) + ']'
        if h == 'some_of':
            return show_term(t[1]) + '!'
        if h == 'elem':
            return 'elem(' + show_term(t[1]) + ')'
        if h == 'lit':
            return repr(t[1])
        if h == 'state':
            return '$state'
        if h == 'index':
            return show_term(t[1]) + '[' + show_term(t[2]) + ']'
        if h == 'adt' and len(t) > 3 and str(t[1]).startswith('std::ops::Range'):
            d = dict(t[3])
            return (show_term(d['start']) if 'start' in d else '') + '..' + (show_term(d['end']) if 'end' in d else '')
        if h == 'ite':
            return 'ite(' + show(t[1]) + ', ' + show_term(t[2]) + ', ' + show_term(t[3]) + ')'
        if h == 'call':
            return str(t[1]).split('::')[-1] + '(' + ', '.join(show_term(x) for x in t[2:]) + ')'
        if h == 'is':
            return show_term(t[1]) + ' is ' + str(t[2])
        if h in ('eq', 'lt'):
            return show_term(t[1]) + (' == ' if h == 'eq' else ' < ') + show_term(t[2])
        if h == 'truth':
            return show_term(t[1])
        if h == 'mvar':
            return 'mut ' + str(t[1])
        if h == 'bool':
            return show(t[1])
        return str(h) + '(' + ', '.join(show_term(x) for x in t[1:]) + ')'
    return str(t)


def show(f):
    k = f[0]
    if k == 'T':
        return 'true'
    if k == 'F':
        return 'false'
    if k == 'a':
        return show_term(f[1])
    if k == '!':
        return '!(' + show(f[1]) + ')'
    if k == '&':
        return '(' + ' && '.join(show(g) for g in f[1]) + ')'
    if k == '|':
        return '(' + ' || '.join(show(g) for g in f[1]) + ')'
    return '?'
