// ircx — rustc_private driver that exports the type-checked program (THIR + a small
// MIR summary + item tables) of the crate under analysis as JSON.
// It performs no property checking itself; the rule engines in /verif/analysis read
// its output.  Invoked through RUSTC_WORKSPACE_WRAPPER: argv = [ircx, rustc, args...].
#![feature(rustc_private)]
#![allow(clippy::all)]

extern crate rustc_abi;
extern crate rustc_ast;
extern crate rustc_driver;
extern crate rustc_hir;
extern crate rustc_interface;
extern crate rustc_middle;
extern crate rustc_span;

use std::collections::HashMap;
use std::fmt::Write as _;

use rustc_driver::{Callbacks, Compilation};
use rustc_hir::def::DefKind;
use rustc_hir::def_id::{DefId, LocalDefId};
use rustc_interface::interface::Compiler;
use rustc_middle::mir;
use rustc_middle::thir::{self, BlockId, ExprId, ExprKind, Pat, PatKind, StmtKind, Thir};
use rustc_middle::ty::{self, Ty, TyCtxt};
use rustc_span::Span;

// ---------------------------------------------------------------- JSON
enum J {
    Null,
    Bool(bool),
    Num(i128),
    Str(String),
    Arr(Vec<J>),
    Obj(Vec<(&'static str, J)>),
}

fn esc(s: &str, out: &mut String) {
    out.push('"');
    for c in s.chars() {
        match c {
            '"' => out.push_str("\\\""),
            '\\' => out.push_str("\\\\"),
            '\n' => out.push_str("\\n"),
            '\r' => out.push_str("\\r"),
            '\t' => out.push_str("\\t"),
            c if (c as u32) < 0x20 => {
                let _ = write!(out, "\\u{:04x}", c as u32);
            }
            c => out.push(c),
        }
    }
    out.push('"');
}

impl J {
    fn write(&self, out: &mut String) {
        match self {
            J::Null => out.push_str("null"),
            J::Bool(b) => out.push_str(if *b { "true" } else { "false" }),
            J::Num(n) => {
                let _ = write!(out, "{}", n);
            }
            J::Str(s) => esc(s, out),
            J::Arr(v) => {
                out.push('[');
                for (i, x) in v.iter().enumerate() {
                    if i > 0 {
                        out.push(',');
                    }
                    x.write(out);
                }
                out.push(']');
            }
            J::Obj(v) => {
                out.push('{');
                for (i, (k, x)) in v.iter().enumerate() {
                    if i > 0 {
                        out.push(',');
                    }
                    esc(k, out);
                    out.push(':');
                    x.write(out);
                }
                out.push('}');
            }
        }
    }
}

fn s(x: impl Into<String>) -> J {
    J::Str(x.into())
}
fn n(x: usize) -> J {
    J::Num(x as i128)
}

// ---------------------------------------------------------------- context
struct Cx<'tcx> {
    tcx: TyCtxt<'tcx>,
    types: Vec<String>,
    type_ix: HashMap<String, usize>,
    files: Vec<String>,
    file_ix: HashMap<String, usize>,
}

impl<'tcx> Cx<'tcx> {
    fn ty_str(&self, t: Ty<'tcx>) -> String {
        ty::print::with_no_trimmed_paths!(t.to_string())
    }
    fn ty(&mut self, t: Ty<'tcx>) -> J {
        let st = self.ty_str(t);
        if let Some(i) = self.type_ix.get(&st) {
            return n(*i);
        }
        let i = self.types.len();
        self.types.push(st.clone());
        self.type_ix.insert(st, i);
        n(i)
    }
    fn path(&self, d: DefId) -> String {
        ty::print::with_no_trimmed_paths!(self.tcx.def_path_str(d))
    }
    fn span(&mut self, sp: Span) -> J {
        let sm = self.tcx.sess.source_map();
        // macro name (outermost expansion) if any
        let mut mac = J::Null;
        let mut outer = J::Null;
        if sp.from_expansion() {
            let ed = sp.ctxt().outer_expn_data();
            mac = s(format!("{:?}", ed.kind));
            // outermost (user-written) macro invocation of the expansion chain
            if let Some(last) = sp.macro_backtrace().last() {
                outer = s(format!("{:?}", last.kind));
            }
        }
        let root = sp.source_callsite();
        let lo = sm.lookup_char_pos(root.lo());
        let fname = format!("{}", lo.file.name.prefer_local_unconditionally());
        let fi = if let Some(i) = self.file_ix.get(&fname) {
            *i
        } else {
            let i = self.files.len();
            self.files.push(fname.clone());
            self.file_ix.insert(fname, i);
            i
        };
        J::Arr(vec![n(fi), n(lo.line), n(lo.col.0 + 1), mac, outer])
    }
}

struct BodyCx<'a, 'tcx> {
    cx: &'a mut Cx<'tcx>,
    thir: &'a Thir<'tcx>,
}

impl<'a, 'tcx> BodyCx<'a, 'tcx> {
    fn tcx(&self) -> TyCtxt<'tcx> {
        self.cx.tcx
    }

    fn var(&self, id: thir::LocalVarId) -> (String, usize) {
        let name = self.tcx().hir_name(id.0).to_string();
        (name, id.0.local_id.as_usize())
    }

    fn block(&mut self, b: BlockId) -> J {
        let blk = &self.thir[b];
        let mut stmts = Vec::new();
        for sid in blk.stmts.iter() {
            let st = &self.thir[*sid];
            match &st.kind {
                StmtKind::Expr { expr, .. } => stmts.push(self.expr(*expr)),
                StmtKind::Let { pattern, initializer, else_block, span, .. } => {
                    let mut o = vec![("k", s("Let")), ("pat", self.pat(pattern))];
                    if let Some(i) = initializer {
                        o.push(("init", self.expr(*i)));
                    }
                    if let Some(e) = else_block {
                        o.push(("else", self.block(*e)));
                    }
                    o.push(("sp", self.cx.span(*span)));
                    stmts.push(J::Obj(o));
                }
            }
        }
        let mut o = vec![("k", s("Block")), ("stmts", J::Arr(stmts))];
        if let Some(e) = blk.expr {
            o.push(("expr", self.expr(e)));
        }
        if blk.targeted_by_break {
            o.push(("hid", n(blk.region_scope.local_id.as_usize())));
        }
        o.push(("sp", self.cx.span(blk.span)));
        J::Obj(o)
    }

    fn fn_ref(&mut self, t: Ty<'tcx>) -> Option<J> {
        if let ty::FnDef(def_id, args) = t.kind() {
            let tcx = self.tcx();
            let mut o = vec![("k", s("Fn")), ("path", s(self.cx.path(*def_id)))];
            o.push(("name", s(tcx.item_name(*def_id).to_string())));
            // generic args as strings
            let ga: Vec<J> = args
                .iter()
                .map(|a| s(ty::print::with_no_trimmed_paths!(a.to_string())))
                .collect();
            o.push(("gargs", J::Arr(ga)));
            o.push(("krate", s(tcx.crate_name(def_id.krate).to_string())));
            // associated item info
            if let Some(assoc) = tcx.opt_associated_item(*def_id) {
                let container = assoc.container_id(tcx);
                match tcx.def_kind(container) {
                    DefKind::Trait => {
                        o.push(("trait", s(self.cx.path(container))));
                        // try to resolve to the implementing item for concrete receivers
                        let has_param = args.iter().any(|a| {
                            use rustc_middle::ty::TypeVisitableExt;
                            a.has_param() || a.has_infer() || a.has_aliases()
                        });
                        if !has_param {
                            let env = ty::TypingEnv::fully_monomorphized();
                            if let Ok(Some(inst)) =
                                ty::Instance::try_resolve(tcx, env, *def_id, args)
                            {
                                let rd = inst.def_id();
                                if rd != *def_id {
                                    o.push(("resolved", s(self.cx.path(rd))));
                                }
                            }
                        }
                    }
                    DefKind::Impl { .. } => {
                        let self_ty = tcx.type_of(container).instantiate_identity();
                        #[allow(unused_mut)]
                        let mut st = self_ty;
                        let st = st.skip_norm_wip();
                        o.push(("impl_self", s(self.cx.ty_str(st))));
                        if let Some(tr) = tcx.impl_opt_trait_ref(container) {
                            let tr = tr.instantiate_identity().skip_norm_wip();
                            o.push(("impl_trait", s(self.cx.path(tr.def_id))));
                        }
                    }
                    _ => {}
                }
            }
            return Some(J::Obj(o));
        }
        None
    }

    fn expr(&mut self, id: ExprId) -> J {
        let e = &self.thir[id];
        let mut o: Vec<(&'static str, J)> = Vec::new();
        match &e.kind {
            ExprKind::Scope { value, region_scope, .. } => {
                let mut inner = self.expr(*value);
                if let J::Obj(v) = &mut inner {
                    if !v.iter().any(|(k, _)| *k == "hid") {
                        v.push(("hid", n(region_scope.local_id.as_usize())));
                    }
                }
                return inner;
            }
            ExprKind::If { cond, then, else_opt, .. } => {
                o.push(("k", s("If")));
                o.push(("cond", self.expr(*cond)));
                o.push(("then", self.expr(*then)));
                if let Some(x) = else_opt {
                    o.push(("else", self.expr(*x)));
                }
            }
            ExprKind::Call { fun, args, from_hir_call, fn_span, .. } => {
                o.push(("k", s("Call")));
                o.push(("fun", self.expr(*fun)));
                let a: Vec<J> = args.iter().map(|x| self.expr(*x)).collect();
                o.push(("args", J::Arr(a)));
                if !*from_hir_call {
                    o.push(("overloaded", J::Bool(true)));
                }
                o.push(("fsp", self.cx.span(*fn_span)));
            }
            ExprKind::ByUse { expr, .. } => {
                o.push(("k", s("Use")));
                o.push(("e", self.expr(*expr)));
            }
            ExprKind::Deref { arg } => {
                o.push(("k", s("Deref")));
                o.push(("e", self.expr(*arg)));
            }
            ExprKind::Binary { op, lhs, rhs } => {
                o.push(("k", s("Binary")));
                o.push(("op", s(format!("{:?}", op))));
                o.push(("l", self.expr(*lhs)));
                o.push(("r", self.expr(*rhs)));
            }
            ExprKind::LogicalOp { op, lhs, rhs } => {
                o.push(("k", s("Logical")));
                o.push(("op", s(format!("{:?}", op))));
                o.push(("l", self.expr(*lhs)));
                o.push(("r", self.expr(*rhs)));
            }
            ExprKind::Unary { op, arg } => {
                o.push(("k", s("Unary")));
                o.push(("op", s(format!("{:?}", op))));
                o.push(("e", self.expr(*arg)));
            }
            ExprKind::Cast { source } => {
                o.push(("k", s("Cast")));
                o.push(("e", self.expr(*source)));
            }
            ExprKind::Use { source } => {
                o.push(("k", s("Use")));
                o.push(("e", self.expr(*source)));
            }
            ExprKind::NeverToAny { source } => {
                o.push(("k", s("NeverToAny")));
                o.push(("e", self.expr(*source)));
            }
            ExprKind::PointerCoercion { source, cast, .. } => {
                o.push(("k", s("Coerce")));
                o.push(("cast", s(format!("{:?}", cast))));
                o.push(("e", self.expr(*source)));
            }
            ExprKind::Loop { body } => {
                o.push(("k", s("Loop")));
                o.push(("body", self.expr(*body)));
            }
            ExprKind::Let { expr, pat } => {
                o.push(("k", s("LetExpr")));
                o.push(("pat", self.pat(pat)));
                o.push(("e", self.expr(*expr)));
            }
            ExprKind::Match { scrutinee, arms, match_source } => {
                o.push(("k", s("Match")));
                o.push(("src", s(format!("{:?}", match_source))));
                o.push(("scrut", self.expr(*scrutinee)));
                let mut av = Vec::new();
                for a in arms.iter() {
                    let arm = &self.thir[*a];
                    let mut ao = vec![("pat", self.pat(&arm.pattern))];
                    if let Some(g) = arm.guard {
                        ao.push(("guard", self.expr(g)));
                    }
                    ao.push(("body", self.expr(arm.body)));
                    ao.push(("sp", self.cx.span(arm.span)));
                    av.push(J::Obj(ao));
                }
                o.push(("arms", J::Arr(av)));
            }
            ExprKind::Block { block } => {
                return self.block(*block);
            }
            ExprKind::Assign { lhs, rhs } => {
                o.push(("k", s("Assign")));
                o.push(("l", self.expr(*lhs)));
                o.push(("r", self.expr(*rhs)));
            }
            ExprKind::AssignOp { op, lhs, rhs } => {
                o.push(("k", s("AssignOp")));
                o.push(("op", s(format!("{:?}", op))));
                o.push(("l", self.expr(*lhs)));
                o.push(("r", self.expr(*rhs)));
            }
            ExprKind::Field { lhs, variant_index, name } => {
                o.push(("k", s("Field")));
                let lty = self.thir[*lhs].ty;
                let fname = match lty.kind() {
                    ty::Adt(adt, _) => {
                        let v = adt.variant(*variant_index);
                        o.push(("adt", s(self.cx.path(adt.did()))));
                        if adt.is_enum() {
                            o.push(("variant", s(v.name.to_string())));
                        }
                        v.fields[*name].name.to_string()
                    }
                    _ => format!("{}", name.as_usize()),
                };
                o.push(("f", s(fname)));
                o.push(("e", self.expr(*lhs)));
            }
            ExprKind::Index { lhs, index } => {
                o.push(("k", s("Index")));
                o.push(("e", self.expr(*lhs)));
                o.push(("i", self.expr(*index)));
            }
            ExprKind::VarRef { id } => {
                let (name, vid) = self.var(*id);
                o.push(("k", s("Var")));
                o.push(("n", s(name)));
                o.push(("v", n(vid)));
            }
            ExprKind::UpvarRef { var_hir_id, .. } => {
                let (name, vid) = self.var(*var_hir_id);
                o.push(("k", s("Var")));
                o.push(("n", s(name)));
                o.push(("v", n(vid)));
                o.push(("up", J::Bool(true)));
            }
            ExprKind::Borrow { borrow_kind, arg } => {
                o.push(("k", s("Borrow")));
                let m = matches!(borrow_kind, mir::BorrowKind::Mut { .. });
                o.push(("mut", J::Bool(m)));
                o.push(("e", self.expr(*arg)));
            }
            ExprKind::RawBorrow { arg, .. } => {
                o.push(("k", s("RawBorrow")));
                o.push(("e", self.expr(*arg)));
            }
            ExprKind::Break { label, value } => {
                o.push(("k", s("Break")));
                o.push(("label", n(label.local_id.as_usize())));
                if let Some(v) = value {
                    o.push(("e", self.expr(*v)));
                }
            }
            ExprKind::Continue { label } => {
                o.push(("k", s("Continue")));
                o.push(("label", n(label.local_id.as_usize())));
            }
            ExprKind::Return { value } => {
                o.push(("k", s("Return")));
                if let Some(v) = value {
                    o.push(("e", self.expr(*v)));
                }
            }
            ExprKind::Become { value } => {
                o.push(("k", s("Return")));
                o.push(("e", self.expr(*value)));
            }
            ExprKind::ConstBlock { did, .. } => {
                o.push(("k", s("ConstBlock")));
                o.push(("path", s(self.cx.path(*did))));
            }
            ExprKind::Repeat { value, count } => {
                o.push(("k", s("Repeat")));
                o.push(("e", self.expr(*value)));
                o.push(("count", s(format!("{}", count))));
            }
            ExprKind::Array { fields } => {
                o.push(("k", s("Array")));
                let a: Vec<J> = fields.iter().map(|x| self.expr(*x)).collect();
                o.push(("es", J::Arr(a)));
            }
            ExprKind::Tuple { fields } => {
                o.push(("k", s("Tuple")));
                let a: Vec<J> = fields.iter().map(|x| self.expr(*x)).collect();
                o.push(("es", J::Arr(a)));
            }
            ExprKind::Adt(adt) => {
                o.push(("k", s("Adt")));
                o.push(("adt", s(self.cx.path(adt.adt_def.did()))));
                let v = adt.adt_def.variant(adt.variant_index);
                o.push(("variant", s(v.name.to_string())));
                let mut fs = Vec::new();
                for f in adt.fields.iter() {
                    let fname = v.fields[f.name].name.to_string();
                    fs.push(J::Obj(vec![("f", s(fname)), ("e", self.expr(f.expr))]));
                }
                o.push(("fields", J::Arr(fs)));
                if let thir::AdtExprBase::Base(fru) = &adt.base {
                    o.push(("base", self.expr(fru.base)));
                }
            }
            ExprKind::PlaceTypeAscription { source, .. }
            | ExprKind::ValueTypeAscription { source, .. }
            | ExprKind::PlaceUnwrapUnsafeBinder { source }
            | ExprKind::ValueUnwrapUnsafeBinder { source }
            | ExprKind::WrapUnsafeBinder { source } => {
                o.push(("k", s("Use")));
                o.push(("e", self.expr(*source)));
            }
            ExprKind::Closure(c) => {
                o.push(("k", s("Closure")));
                o.push(("def", s(self.cx.path(c.closure_id.to_def_id()))));
                let a: Vec<J> = c.upvars.iter().map(|x| self.expr(*x)).collect();
                o.push(("upvars", J::Arr(a)));
            }
            ExprKind::Literal { lit, neg } => {
                use rustc_ast::LitKind;
                o.push(("k", s("Lit")));
                match &lit.node {
                    LitKind::Str(sym, _) => {
                        o.push(("lk", s("str")));
                        o.push(("val", s(sym.as_str())));
                    }
                    LitKind::ByteStr(bs, _) | LitKind::CStr(bs, _) => {
                        o.push(("lk", s("bytes")));
                        let v: Vec<J> = bs.as_byte_str().iter().map(|b| n(*b as usize)).collect();
                        o.push(("val", J::Arr(v)));
                    }
                    LitKind::Byte(b) => {
                        o.push(("lk", s("byte")));
                        o.push(("val", n(*b as usize)));
                    }
                    LitKind::Char(c) => {
                        o.push(("lk", s("char")));
                        o.push(("val", s(c.to_string())));
                    }
                    LitKind::Int(v, _) => {
                        o.push(("lk", s("int")));
                        let v = v.get() as i128;
                        o.push(("val", J::Num(if *neg { -v } else { v })));
                    }
                    LitKind::Float(sym, _) => {
                        o.push(("lk", s("float")));
                        o.push(("val", s(sym.as_str())));
                    }
                    LitKind::Bool(b) => {
                        o.push(("lk", s("bool")));
                        o.push(("val", J::Bool(*b)));
                    }
                    LitKind::Err(_) => {
                        o.push(("lk", s("err")));
                    }
                }
            }
            ExprKind::NonHirLiteral { lit, .. } => {
                o.push(("k", s("Lit")));
                o.push(("lk", s("scalar")));
                o.push(("val", s(format!("{:?}", lit))));
            }
            ExprKind::ZstLiteral { .. } => {
                if let Some(f) = self.fn_ref(e.ty) {
                    return f;
                }
                o.push(("k", s("Zst")));
            }
            ExprKind::NamedConst { def_id, .. } => {
                o.push(("k", s("Const")));
                o.push(("path", s(self.cx.path(*def_id))));
            }
            ExprKind::ConstParam { def_id, .. } => {
                o.push(("k", s("Const")));
                o.push(("path", s(self.cx.path(*def_id))));
            }
            ExprKind::StaticRef { def_id, .. } => {
                o.push(("k", s("Static")));
                o.push(("path", s(self.cx.path(*def_id))));
            }
            ExprKind::ThreadLocalRef(def_id) => {
                o.push(("k", s("Static")));
                o.push(("path", s(self.cx.path(*def_id))));
            }
            ExprKind::Yield { value } => {
                o.push(("k", s("Yield")));
                o.push(("e", self.expr(*value)));
            }
            ExprKind::InlineAsm(_) => {
                o.push(("k", s("Opaque")));
                o.push(("why", s("inline asm")));
            }
            ExprKind::LoopMatch { .. } | ExprKind::ConstContinue { .. } => {
                o.push(("k", s("Opaque")));
                o.push(("why", s("loop_match")));
            }
        }
        o.push(("ty", self.cx.ty(e.ty)));
        o.push(("sp", self.cx.span(e.span)));
        J::Obj(o)
    }

    fn pat(&mut self, p: &Pat<'tcx>) -> J {
        let mut o: Vec<(&'static str, J)> = Vec::new();
        match &p.kind {
            PatKind::Missing | PatKind::Wild => o.push(("k", s("Wild"))),
            PatKind::Binding { name, mode, var, subpattern, .. } => {
                o.push(("k", s("Bind")));
                o.push(("n", s(name.to_string())));
                o.push(("v", n(var.0.local_id.as_usize())));
                o.push(("mode", s(format!("{:?}", mode))));
                if let Some(sp) = subpattern {
                    o.push(("sub", self.pat(sp)));
                }
            }
            PatKind::Variant { adt_def, variant_index, subpatterns, .. } => {
                o.push(("k", s("Variant")));
                o.push(("adt", s(self.cx.path(adt_def.did()))));
                let v = adt_def.variant(*variant_index);
                o.push(("variant", s(v.name.to_string())));
                let mut fs = Vec::new();
                for fp in subpatterns {
                    let fname = v.fields[fp.field].name.to_string();
                    fs.push(J::Obj(vec![("f", s(fname)), ("p", self.pat(&fp.pattern))]));
                }
                o.push(("fields", J::Arr(fs)));
            }
            PatKind::Leaf { subpatterns } => {
                o.push(("k", s("Leaf")));
                let mut fs = Vec::new();
                for fp in subpatterns {
                    let fname = match p.ty.kind() {
                        ty::Adt(adt, _) if !adt.is_enum() => {
                            adt.non_enum_variant().fields[fp.field].name.to_string()
                        }
                        _ => format!("{}", fp.field.as_usize()),
                    };
                    fs.push(J::Obj(vec![("f", s(fname)), ("p", self.pat(&fp.pattern))]));
                }
                if let ty::Adt(adt, _) = p.ty.kind() {
                    o.push(("adt", s(self.cx.path(adt.did()))));
                }
                o.push(("fields", J::Arr(fs)));
            }
            PatKind::Deref { subpattern, .. } | PatKind::DerefPattern { subpattern, .. } => {
                o.push(("k", s("DerefPat")));
                o.push(("sub", self.pat(subpattern)));
            }
            PatKind::Constant { value } => {
                o.push(("k", s("ConstPat")));
                o.push(("val", s(ty::print::with_no_trimmed_paths!(format!("{}", value)))));
            }
            PatKind::Range(r) => {
                o.push(("k", s("RangePat")));
                o.push(("val", s(format!("{:?}", r))));
            }
            PatKind::Slice { prefix, slice, suffix } | PatKind::Array { prefix, slice, suffix } => {
                o.push(("k", s("SlicePat")));
                let a: Vec<J> = prefix.iter().map(|x| self.pat(x)).collect();
                o.push(("prefix", J::Arr(a)));
                if let Some(sl) = slice {
                    o.push(("slice", self.pat(sl)));
                }
                let a: Vec<J> = suffix.iter().map(|x| self.pat(x)).collect();
                o.push(("suffix", J::Arr(a)));
            }
            PatKind::Or { pats } => {
                o.push(("k", s("Or")));
                let a: Vec<J> = pats.iter().map(|x| self.pat(x)).collect();
                o.push(("pats", J::Arr(a)));
            }
            PatKind::Guard { subpattern, condition } => {
                o.push(("k", s("GuardPat")));
                o.push(("sub", self.pat(subpattern)));
                o.push(("cond", self.expr(*condition)));
            }
            PatKind::Never => o.push(("k", s("NeverPat"))),
            PatKind::Error(_) => o.push(("k", s("ErrPat"))),
        }
        o.push(("ty", self.cx.ty(p.ty)));
        J::Obj(o)
    }
}

// ---------------------------------------------------------------- MIR summary
fn mir_summary<'tcx>(cx: &mut Cx<'tcx>, body: &mir::Body<'tcx>) -> J {
    use mir::TerminatorKind as T;
    let mut blocks = Vec::new();
    for (_bb, data) in body.basic_blocks.iter_enumerated() {
        let mut o: Vec<(&'static str, J)> = Vec::new();
        if let Some(term) = &data.terminator {
            let sp = term.source_info.span;
            match &term.kind {
                T::Assert { msg, expected, .. } => {
                    o.push(("t", s("Assert")));
                    let dbg = format!("{:?}", msg);
                    let kind = dbg.split(|c: char| !c.is_alphanumeric()).next().unwrap_or("").to_string();
                    o.push(("kind", s(kind)));
                    o.push(("detail", s(dbg)));
                    o.push(("expected", J::Bool(*expected)));
                }
                T::Call { func, .. } => {
                    o.push(("t", s("Call")));
                    let fty = func.ty(&body.local_decls, cx.tcx);
                    if let ty::FnDef(d, _) = fty.kind() {
                        o.push(("callee", s(cx.path(*d))));
                    } else {
                        o.push(("callee", s(format!("<indirect {}>", cx.ty_str(fty)))));
                    }
                }
                T::Drop { place, .. } => {
                    o.push(("t", s("Drop")));
                    let pty = place.ty(&body.local_decls, cx.tcx).ty;
                    o.push(("ty", cx.ty(pty)));
                    o.push(("local", n(place.local.as_usize())));
                }
                T::Yield { .. } => o.push(("t", s("Yield"))),
                T::Return => o.push(("t", s("Return"))),
                T::Unreachable => o.push(("t", s("Unreachable"))),
                T::SwitchInt { .. } => o.push(("t", s("Switch"))),
                T::Goto { .. } => o.push(("t", s("Goto"))),
                other => {
                    let dbg = format!("{:?}", other);
                    let kind = dbg.split(|c: char| !c.is_alphanumeric()).next().unwrap_or("").to_string();
                    o.push(("t", s(kind)));
                }
            }
            o.push(("sp", cx.span(sp)));
            let succ: Vec<J> = term.successors().map(|b| n(b.as_usize())).collect();
            o.push(("succ", J::Arr(succ)));
            if data.is_cleanup {
                o.push(("cleanup", J::Bool(true)));
            }
        }
        blocks.push(J::Obj(o));
    }
    J::Arr(blocks)
}

// ---------------------------------------------------------------- items
fn items<'tcx>(cx: &mut Cx<'tcx>) -> J {
    let tcx = cx.tcx;
    let mut adts = Vec::new();
    let mut fns = Vec::new();
    let mut impls = Vec::new();
    for ld in tcx.hir_crate_items(()).definitions() {
        let d = ld.to_def_id();
        match tcx.def_kind(d) {
            DefKind::Struct | DefKind::Enum | DefKind::Union => {
                let adt = tcx.adt_def(d);
                let mut vs = Vec::new();
                for v in adt.variants() {
                    let mut fs = Vec::new();
                    for f in v.fields.iter() {
                        let fty = tcx.type_of(f.did).instantiate_identity().skip_norm_wip();
                        let vis = format!("{:?}", f.vis);
                        fs.push(J::Obj(vec![
                            ("name", s(f.name.to_string())),
                            ("ty", s(cx.ty_str(fty))),
                            ("vis", s(vis)),
                        ]));
                    }
                    vs.push(J::Obj(vec![("name", s(v.name.to_string())), ("fields", J::Arr(fs))]));
                }
                adts.push(J::Obj(vec![
                    ("path", s(cx.path(d))),
                    ("kind", s(format!("{:?}", tcx.def_kind(d)))),
                    ("variants", J::Arr(vs)),
                    ("sp", cx.span(tcx.def_span(d))),
                ]));
            }
            DefKind::Fn | DefKind::AssocFn => {
                let mut o = vec![
                    ("path", s(cx.path(d))),
                    ("kind", s(format!("{:?}", tcx.def_kind(d)))),
                    ("vis", s(format!("{:?}", tcx.visibility(d)))),
                    ("sp", cx.span(tcx.def_span(d))),
                ];
                if let Some(assoc) = tcx.opt_associated_item(d) {
                    let c = assoc.container_id(tcx);
                    if let DefKind::Impl { .. } = tcx.def_kind(c) {
                        let st = tcx.type_of(c).instantiate_identity().skip_norm_wip();
                        o.push(("impl_self", s(cx.ty_str(st))));
                        if let Some(tr) = tcx.impl_opt_trait_ref(c) {
                            let tr = tr.instantiate_identity().skip_norm_wip();
                            o.push(("impl_trait", s(cx.path(tr.def_id))));
                        }
                    }
                }
                fns.push(J::Obj(o));
            }
            DefKind::Impl { .. } => {
                let st = tcx.type_of(d).instantiate_identity().skip_norm_wip();
                let mut o = vec![("self", s(cx.ty_str(st))), ("sp", cx.span(tcx.def_span(d)))];
                if let Some(tr) = tcx.impl_opt_trait_ref(d) {
                    let tr = tr.instantiate_identity().skip_norm_wip();
                    o.push(("trait", s(cx.path(tr.def_id))));
                }
                impls.push(J::Obj(o));
            }
            _ => {}
        }
    }
    J::Obj(vec![("adts", J::Arr(adts)), ("fns", J::Arr(fns)), ("impls", J::Arr(impls))])
}

// ---------------------------------------------------------------- driver
struct Ircx {
    out: Option<String>,
    nonce: String,
}

fn export<'tcx>(tcx: TyCtxt<'tcx>, out: &str, nonce: &str) {
    let mut cx = Cx {
        tcx,
        types: Vec::new(),
        type_ix: HashMap::new(),
        files: Vec::new(),
        file_ix: HashMap::new(),
    };
    let owners: Vec<LocalDefId> = tcx.hir_body_owners().collect();
    // Pass 1: clone every THIR body before anything can steal it; pass 2: clone every
    // mir_built body (this steals THIR, already cloned); pass 3: export from the clones.
    let mut thirs: Vec<Option<(Thir<'tcx>, ExprId)>> = Vec::new();
    for &def in &owners {
        match tcx.thir_body(def) {
            Ok((steal, root)) => thirs.push(Some((steal.borrow().clone(), root))),
            Err(_) => thirs.push(None),
        }
    }
    let mut mirs: Vec<Option<mir::Body<'tcx>>> = Vec::new();
    for &def in &owners {
        let kind = tcx.def_kind(def.to_def_id());
        let want_mir = matches!(
            kind,
            DefKind::Fn | DefKind::AssocFn | DefKind::Closure | DefKind::SyntheticCoroutineBody
        );
        if want_mir {
            let st = tcx.mir_built(def);
            if st.is_stolen() {
                // a later query (needs_drop on a coroutine type) already consumed it:
                // the promoted form still carries the same Assert/Call/Drop/Yield terminators
                let (pb, _) = tcx.mir_promoted(def);
                if pb.is_stolen() {
                    eprintln!("ircx: MIR unavailable for {}", cx.path(def.to_def_id()));
                    mirs.push(None);
                } else {
                    mirs.push(Some(pb.borrow().clone()));
                }
            } else {
                mirs.push(Some(st.borrow().clone()));
            }
        } else {
            mirs.push(None);
        }
    }
    let mut out_bodies = Vec::new();
    for (i, &def) in owners.iter().enumerate() {
        let d = def.to_def_id();
        let kind = tcx.def_kind(d);
        let mut o: Vec<(&'static str, J)> = vec![
            ("def", s(cx.path(d))),
            ("kind", s(format!("{:?}", kind))),
            ("sp", cx.span(tcx.def_span(d))),
        ];
        if let Some(p) = tcx.opt_local_parent(def) {
            o.push(("parent", s(cx.path(p.to_def_id()))));
        }
        match &thirs[i] {
            Some((thir, root)) => {
                let mut bcx = BodyCx { cx: &mut cx, thir };
                let mut params = Vec::new();
                for p in thir.params.iter() {
                    let mut po = vec![("ty", bcx.cx.ty(p.ty))];
                    if let Some(pat) = &p.pat {
                        po.push(("pat", bcx.pat(pat)));
                    }
                    if p.self_kind.is_some() {
                        po.push(("self", J::Bool(true)));
                    }
                    params.push(J::Obj(po));
                }
                o.push(("params", J::Arr(params)));
                o.push(("body", bcx.expr(*root)));
            }
            None => {
                o.push(("error", s("thir_body failed")));
            }
        }
        if let Some(body) = &mirs[i] {
            o.push(("mir", mir_summary(&mut cx, body)));
        }
        out_bodies.push(J::Obj(o));
    }
    let it = items(&mut cx);
    let root = J::Obj(vec![
        ("nonce", s(nonce)),
        ("crate", s(tcx.crate_name(rustc_hir::def_id::LOCAL_CRATE).to_string())),
        ("types", J::Arr(cx.types.iter().map(|t| s(t.clone())).collect())),
        ("files", J::Arr(cx.files.iter().map(|t| s(t.clone())).collect())),
        ("items", it),
        ("bodies", J::Arr(out_bodies)),
    ]);
    let mut buf = String::new();
    root.write(&mut buf);
    std::fs::write(out, buf).expect("ircx: cannot write facts file");
}

impl Callbacks for Ircx {
    fn after_expansion<'tcx>(&mut self, _c: &Compiler, tcx: TyCtxt<'tcx>) -> Compilation {
        if let Some(out) = &self.out {
            let name = tcx.crate_name(rustc_hir::def_id::LOCAL_CRATE).to_string();
            if name == "simple_irc_server" {
                export(tcx, out, &self.nonce);
            }
        }
        Compilation::Continue
    }
}

fn main() {
    let mut args: Vec<String> = std::env::args().collect();
    // argv[0] = ircx, argv[1] = path of the real rustc (dropped), rest = rustc args
    if args.len() > 1 {
        args.remove(1);
    }
    let out = std::env::var("IRCX_OUT").ok();
    let nonce = std::env::var("IRCX_NONCE").unwrap_or_default();
    let mut cb = Ircx { out, nonce };
    rustc_driver::run_compiler(&args, &mut cb);
}
