#!/bin/sh
# usage: tools/fixdemo.sh <fix-commit> <demo.patch> <testname>
# runs the demonstration test on the parent of the fix (must FAIL) and on the fix (must PASS), in scratch worktrees
C=$1; P=$2; T=$3
export CARGO_NET_OFFLINE=true CARGO_TARGET_DIR=/tmp/fixdemo-target
for rev in "$C^" "$C"; do
  D=$(mktemp -d /tmp/fixdemo-XXXX); rmdir $D
  git -C /repo worktree add -q --detach $D $rev || exit 2
  (cd $D && git apply $P) || { echo "demo patch does not apply on $rev"; git -C /repo worktree remove --force $D; exit 2; }
  (cd $D && timeout 600 cargo test --offline $T -- --test-threads 1 2>&1 | grep -E "^test .*$T|test result" | head -5 | sed "s#^#[$rev] #")
  git -C /repo worktree remove --force $D
done
