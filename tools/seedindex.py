#!/usr/bin/env python3
"""Regenerate seeded/INDEX.md from the meta.json files."""
import glob, json, os
V = os.path.dirname(os.path.dirname(os.path.abspath(__file__)))
rows = []
for m in sorted(glob.glob(os.path.join(V, 'seeded', '*', 'meta.json'))):
    d = json.load(open(m))
    sid = d['seed']
    notes = os.path.join(os.path.dirname(m), 'notes.md')
    what = d.get('what') or ''
    first = d.get('caught_by_first_run', d.get('caught_by', []))
    keys = []
    for p, v in (d.get('checks') or {}).items():
        if v['rc'] == 1 and v['keys']:
            keys.append('%s `%s`' % (p, v['keys'][0]))
    rows.append((sid, d['property'], what, ', '.join(first) or '**missed**', ', '.join(d.get('caught_by', [])) or '**missed**', '; '.join(keys[:3])))
out = ['# Independently seeded changes', '',
       'Each change was written by a fresh sub-agent that saw only the property text and a scratch worktree. Every one compiles, passes the',
       'repository\'s 144 tests (single-threaded, private network namespace) and comes with a demonstration test that fails with the change',
       'and passes without it; all of that was re-confirmed by `tools/seedcheck.py` (see each `meta.json`). "first run" is the verdict of the',
       'checks as they were when the change arrived; "now" after strengthening.', '',
       '| seed | property | what the change does | caught at first run by | caught now by | first violation key per check |',
       '|---|---|---|---|---|---|']
for r in rows:
    out.append('| %s | %s | %s | %s | %s | %s |' % r)
open(os.path.join(V, 'seeded', 'INDEX.md'), 'w').write('\n'.join(out) + '\n')
print('\n'.join(out))
