#!/bin/bash
# usage: tryall.sh <patch file>: all 20 quick checks against a scratch copy of /repo with the patch applied (8 at a time)
pf=$1
tmp=$(mktemp -d /tmp/tryall-XXXX); out=$(mktemp -d /tmp/tryout-XXXX)
cp -r /repo/src /repo/Cargo.toml /repo/Cargo.lock $tmp/
(cd $tmp && patch -p1 -s -i $pf) || { echo "patch failed"; exit 2; }
cd /verif
VERIF_REPO=$tmp VERIF_OUT_DIR=$out python3 -m analysis.check C01 >/dev/null 2>&1   # builds the facts once
seq -w 1 20 | xargs -P 8 -I{} sh -c "VERIF_REPO=$tmp VERIF_OUT_DIR=$out python3 -m analysis.check C{} 2>&1 | grep 'key:\|^C{} \|ERROR' | grep -v PASS | sed 's/^/C{}: /' | cut -c1-400"
rm -rf $tmp $out
echo "-- done $pf"
