#!/usr/bin/env python3
"""Build the prompt for a seeding sub-agent: property text only, its own scratch worktree, nothing from /verif.

usage: tools/mkprompt.py C11 b [hint]   -> prints the prompt; worktree is /tmp/seed-C11-b
"""
import json
import sys

VERIF = __file__.rsplit('/tools/', 1)[0]
pid, tag = sys.argv[1], sys.argv[2]
hint = sys.argv[3] if len(sys.argv) > 3 else ''
props = {json.loads(l)['id']: json.loads(l) for l in open(VERIF + '/properties.jsonl') if l.strip()}
p = props[pid]
wt = '/tmp/seed-%s-%s' % (pid, tag)
print(f"""You are helping to evaluate a verification tool by seeding one realistic bug into a Rust project.

Project: simple-irc-server (single-node asynchronous IRC server in Rust/Tokio). You have your OWN scratch git worktree of it at {wt} (work ONLY there; never touch /repo or /verif, never read anything under /verif, never commit anywhere). Build offline only (`cargo ... --offline`; no network exists). Use `CARGO_TARGET_DIR={wt}/target`.

The behavioural property that your change must break:

  {pid} - {p['title']}
  Statement: {p['statement']}
  Quantified over: {p['quantifier']['text']}

Your task: make ONE small, realistic source change (the kind of regression a maintainer could plausibly introduce in a refactor or feature tweak - not sabotage, no dead code, no comments announcing it) to the non-test code under {wt}/src that BREAKS this property, while
  (a) the project still compiles (`cargo build --offline`), and
  (b) the project's existing test suite still passes. The socket tests bind fixed TCP ports (7888 upwards) and other people run the same tests on this machine, so ALWAYS run tests inside a private network namespace and single-threaded:
        cd {wt} && CARGO_TARGET_DIR={wt}/target unshare -n sh -c 'ip link set lo up; cargo test --offline -- --test-threads 1'
      (one test, test_command_mode_channel_lists, and occasionally a whois-idle test are timing/ordering flaky on their own - rerun once if only such a test fails).
The break must need something specific to manifest - a particular interleaving of clients, a multi-step sequence of commands, an unusual input, a specific configuration, or two cooperating code sites that each look fine alone - NOT something ordinary use would expose at once. Prefer a subtle semantic change (a weakened/shifted condition, a missing update on one path, a wrong key/field on a rare path, an ordering change) over deleting a whole feature. {hint}

Also write a DEMONSTRATION: a new #[tokio::test] (or #[test]) added to an existing test module of the crate (socket-level helpers live in the `test` module of src/state/mod.rs: run_test_server, quit_test_server, connect_to_test, login_to_test_and_skip; look at existing tests in src/state/*_cmds.rs for usage) that FAILS with your change and PASSES on the unchanged code. Verify both yourself (git stash / git diff -R as needed).

Deliverables, all under {wt}/OUT/ :
  - patch.diff  : `git diff` of ONLY the seeded source change (no test code), applicable with `git apply` on the unchanged tree
  - demo.diff   : `git diff` of ONLY the demonstration test (applicable on the unchanged tree, independent of patch.diff)
  - notes.md    : which function(s) you changed, why the property breaks, what exactly is needed for it to manifest, the test name, and the commands you ran with their results (existing suite with the change; demo with and without the change)
Keep patch.diff minimal (ideally 1-10 changed lines). Do not modify Cargo.toml, tests, or anything outside src/. When done, leave the worktree with the source change applied. Finish by replying with a 5-line summary.""")
