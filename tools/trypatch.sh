#!/bin/bash
# usage: trypatch.sh <patch file> <prop> [<prop>...]: run checks against a scratch copy of /repo with the patch applied
pf=$1; shift
tmp=$(mktemp -d /tmp/trypatch-XXXX); out=$(mktemp -d /tmp/tryout-XXXX)
cp -r /repo/src /repo/Cargo.toml /repo/Cargo.lock $tmp/
(cd $tmp && patch -p1 -s -i $pf) || { echo "patch failed"; exit 2; }
for p in "$@"; do (cd /verif && VERIF_REPO=$tmp VERIF_OUT_DIR=$out python3 -m analysis.check $p 2>&1 | grep "key:\|^$p \|ERROR"); done
rm -rf $tmp $out
