import sys; sys.path.insert(0,'/verif'); 
prop=sys.argv[1]; sys.argv=['x',prop]+sys.argv[2:]
from analysis import report
def fin(check):
    for r in check.rules:
        print('##',r.rid,r.title,'(%d, floor %d)'%(len(r.instances),r.floor))
        for i in r.instances: print('   ',i[:200])
        for v in r.violations: print('   VIOL',v.key[:200])
        for o in r.observations: print('   OBS',o[:200])
    for e in check.errors: print('ERR',e)
    return 0
report.finish=fin
from analysis import check
try: check.main()
except SystemExit: pass
