#!/usr/bin/env python3
"""Prompt for a sub-agent that produces a behaviour-PRESERVING refactoring (to test the checks for false alarms).
usage: tools/mkprompt_refactor.py C07 r   -> worktree /tmp/refac-C07-r"""
import json, sys
VERIF = __file__.rsplit('/tools/', 1)[0]
pid, tag = sys.argv[1], sys.argv[2]
hint = sys.argv[3] if len(sys.argv) > 3 else ''
props = {json.loads(l)['id']: json.loads(l) for l in open(VERIF + '/properties.jsonl') if l.strip()}
p = props[pid]
wt = '/tmp/refac-%s-%s' % (pid, tag)
print(f"""You are helping to evaluate a verification tool. Your job is to produce a realistic, behaviour-PRESERVING refactoring of a Rust project - the kind of clean-up commit a maintainer makes - so that we can see whether the tool wrongly raises an alarm on correct code.

Project: simple-irc-server (single-node asynchronous IRC server in Rust/Tokio). You have your OWN scratch git worktree of it at {wt} (work ONLY there; never touch /repo or /verif, never read anything under /verif, never commit anywhere). Build offline only (`cargo ... --offline`; no network exists). Use `CARGO_TARGET_DIR={wt}/target`.

The behavioural property whose implementation you should refactor (it must KEEP holding, exactly as before):

  {pid} - {p['title']}
  Statement: {p['statement']}

Your task: find the non-test code under {wt}/src that implements this behaviour and refactor part of it WITHOUT changing any observable behaviour for any input, state or interleaving. Aim for 15-60 changed lines, touching the core of the implementation (the conditions, the state updates, the messages sent), not just comments or whitespace. Use ordinary refactoring moves, e.g.: rename local variables; extract a small private helper function or inline one; replace nested if/else by early `continue`/`return` or by `match`; replace an explicit loop by iterator adaptors or vice versa; hoist a repeated expression into a `let`; reorder statements that are independent of each other; replace `if x.is_some() {{ x.unwrap() }}` by `if let`; merge or split conditions using boolean algebra (De Morgan, distributing &&/||); change `a.contains_key(k)` + `a.get(k).unwrap()` into `if let Some(v) = a.get(k)`; use `map_or`/`is_some_and` style combinators. Do NOT fix bugs, do NOT change messages, numerics, ordering of messages to any one receiver, locking structure (keep the same lock held over the same check-and-update), or error behaviour. If you are not sure a step preserves behaviour in a corner case, do not take it. {hint}

It must compile (`cargo build --offline`) and the existing test suite must pass. The socket tests bind fixed TCP ports (7888 upwards) and other people run the same tests on this machine, so ALWAYS run tests inside a private network namespace and single-threaded:
      cd {wt} && CARGO_TARGET_DIR={wt}/target unshare -n sh -c 'ip link set lo up; cargo test --offline -- --test-threads 1'
(one test, test_command_mode_channel_lists, and occasionally a whois test are timing/ordering flaky on their own - rerun once if only such a test fails).

Deliverables, under {wt}/OUT/ :
  - patch.diff : `git diff` of the refactoring, applicable with `git apply` on the unchanged tree
  - notes.md   : which functions you changed, which refactoring moves you used, and a short argument per move why behaviour is unchanged (including corner cases: empty lists, repeated names, absent channel/user, refused commands), plus the test command you ran and its result
Do not modify Cargo.toml or tests. Leave the worktree with the change applied. Finish by replying with a 5-line summary.""")
