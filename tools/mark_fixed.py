#!/usr/bin/env python3
"""usage: tools/mark_fixed.py <commit> <key-prefix> [<key-prefix> ...]   moves matching known findings to the fixed list"""
import json, sys
p = '/verif/known_findings.json'
k = json.load(open(p))
commit = sys.argv[1]
keep = []
n = 0
for f in k['findings']:
    if any(f['key'].startswith(pref) for pref in sys.argv[2:]):
        k['fixed'].append({'property': f['property'], 'commit': commit, 'key': f['key'], 'what': f['what'], 'input': f.get('input'),
                           'entry': 'fixed: property=%s %s %s' % (f['property'], commit, f['what'][:120])})
        n += 1
    else:
        keep.append(f)
k['findings'] = keep
json.dump(k, open(p, 'w'), indent=1)
print('moved', n, 'entries; remaining', len(keep))
