import sys; sys.path.insert(0,'/verif')
from analysis import ir, sym
from analysis.formula import show, show_term
from analysis import facts; prog = ir.load(facts.ensure_facts('default'))
fn=sys.argv[1]
inl=sys.argv[2].split(',') if len(sys.argv)>2 else ()
w,val = sym.analyse(prog, fn, inline=inl)
for e in w.events:
    if e.kind in ('call','unwrap','lock','index','try','local_mut','assign','assignop','arith','return'):
        d=e.data
        what = d.get('callee') or d.get('name') or ''
        args = d.get('args') or [d.get('recv'), d.get('lhs'), d.get('rhs'), d.get('base'), d.get('index')] 
        print(e.kind, what.split('::')[-1], [show_term(a) for a in args if a is not None], '\n      PC:', show(e.pc), ' guards', e.guards, ' loops', len(e.loops), prog.loc(e.node))
