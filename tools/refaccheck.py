#!/usr/bin/env python3
"""Confirm a behaviour-preserving refactoring (compiles, existing suite passes) and run every check against it: all must stay silent.

usage: tools/refaccheck.py <id> <dir with patch.diff notes.md> <property>       stores /verif/refactors/<id>/
       tools/refaccheck.py --recheck <id> ...
"""
import json, os, shutil, subprocess, sys, tempfile
sys.path.insert(0, os.path.dirname(os.path.abspath(__file__)))
import seedcheck as sc

VERIF = sc.VERIF


def checks(patch):
    sys.argv = [a for a in sys.argv if a != '--in-repo']
    return sc.run_checks(patch)


def summarise(meta, results):
    meta['checks'] = {p: v for p, v in results.items() if v['rc'] != 0}
    meta['alarms'] = [p for p, v in results.items() if v['rc'] == 1]
    meta['no_verdict'] = [p for p, v in results.items() if v['rc'] == 2]
    meta['verdict'] = 'confirmed behaviour-preserving by the suite; ' + (
        'all 20 checks silent' if not meta['checks'] else 'ALARMS: %s; no verdict: %s' % (meta['alarms'], meta['no_verdict']))


def main():
    if sys.argv[1] == '--recheck':
        for rid in sys.argv[2:]:
            d = os.path.join(VERIF, 'refactors', rid)
            meta = json.load(open(os.path.join(d, 'meta.json')))
            summarise(meta, checks(os.path.join(d, 'patch.diff')))
            json.dump(meta, open(os.path.join(d, 'meta.json'), 'w'), indent=1)
            print(rid, meta['verdict'], {p: v['keys'][:3] or v.get('errors') for p, v in meta['checks'].items()})
        return
    rid, src, prop = sys.argv[1], sys.argv[2], sys.argv[3]
    patch = os.path.join(src, 'patch.diff')
    meta = {'refactor': rid, 'property': prop, 'ran': []}
    wt = tempfile.mkdtemp(prefix='refchk-')
    os.rmdir(wt)
    sc.sh(['git', '-C', sc.REPO, 'worktree', 'add', '-q', '--detach', wt, 'HEAD'])
    try:
        rc, out = sc.sh(['git', 'apply', patch], cwd=wt)
        if rc != 0:
            meta['verdict'] = 'rejected: patch does not apply to the current HEAD'
            print(out[-300:])
        else:
            rc, res, out = sc.run_tests(wt)
            failed = [t for t, r in res.items() if r != 'ok']
            still = []
            for t in failed:
                ok = False
                for _ in range(4):
                    rc2, res2, _o = sc.run_tests(wt, t.split('::')[-1])
                    if res2 and all(v == 'ok' for v in res2.values()):
                        ok = True
                        break
                if not ok:
                    still.append(t)
            meta['ran'].append('cargo test --offline -- --test-threads 1 (private netns): %d tests, failing after re-runs: %s' % (len(res), still))
            if not res or still:
                meta['verdict'] = 'rejected: does not build or existing tests fail: %s' % still
                print(out[-500:] if not res else '')
    finally:
        sc.sh(['git', '-C', sc.REPO, 'worktree', 'remove', '--force', wt])
    if 'verdict' not in meta:
        summarise(meta, checks(patch))
    d = os.path.join(VERIF, 'refactors', rid)
    os.makedirs(d, exist_ok=True)
    for f in ('patch.diff', 'notes.md'):
        if os.path.exists(os.path.join(src, f)):
            shutil.copy(os.path.join(src, f), os.path.join(d, f))
    json.dump(meta, open(os.path.join(d, 'meta.json'), 'w'), indent=1)
    print(rid, meta['verdict'], {p: (v['keys'][:4] or v.get('errors')) for p, v in meta.get('checks', {}).items()})


if __name__ == '__main__':
    main()
