#!/usr/bin/env python3
"""Confirm a seeded change and run the checks against it.

usage: tools/seedcheck.py <seed-id> <dir with patch.diff demo.diff notes.md> <property> [--demo-test NAME] [--keep]

1. scratch worktree of /repo HEAD: apply patch.diff, build, run the whole existing suite sequentially
   (the 38 baseline tests must pass; the socket tests are run too, flaky ones are retried once)
2. demo.diff: the demonstration must FAIL with the change and PASS without it
3. apply patch.diff to /repo itself, run every check's quick command, undo with git checkout
4. write /verif/seeded/<seed-id>/{patch.diff, demo.diff, notes.md, meta.json}
"""
import json
import os
import re
import shutil
import subprocess
import sys
import tempfile

VERIF = os.path.dirname(os.path.dirname(os.path.abspath(__file__)))
REPO = '/repo'
ENV = dict(os.environ, CARGO_NET_OFFLINE='true', CARGO_TARGET_DIR='/tmp/seedcheck-target')


def sh(cmd, cwd=None, timeout=1800):
    r = subprocess.run(cmd, cwd=cwd, env=ENV, shell=isinstance(cmd, str), capture_output=True, text=True, timeout=timeout)
    return r.returncode, r.stdout + r.stderr


def run_tests(wt, name=None):
    # own network namespace: the socket tests bind fixed ports from 7888 upwards
    # the target directory is shared between runs: build + run of one tree must not interleave with another's
    cmd = "flock /tmp/seedcheck-target.lock unshare -n sh -c 'ip link set lo up; cargo test --offline %s -- --test-threads 1'" % (name or '')
    rc, out = sh(cmd, cwd=wt)
    res = {}
    for l in out.splitlines():
        m = re.match(r'^test (\S+) \.\.\. (\w+)', l)
        if m:
            res[m.group(1)] = m.group(2)
    return rc, res, out


def run_checks(patch):
    """all 20 quick checks against a scratch copy of /repo's current tree with the patch applied (VERIF_REPO), so that /repo itself
       is never touched and several runs can go on at the same time; `--in-repo` uses `git -C /repo apply` / `git checkout -- .` instead"""
    in_repo = '--in-repo' in sys.argv
    tmp = None
    env = dict(os.environ, VERIF_OUT_DIR=tempfile.mkdtemp(prefix='seedout-'))
    if in_repo:
        rc, out = sh(['git', '-C', REPO, 'status', '--porcelain'])
        if out.strip():
            print('refusing: /repo working tree is not clean')
            sys.exit(2)
        rc, out = sh(['git', '-C', REPO, 'apply', patch])
    else:
        tmp = tempfile.mkdtemp(prefix='seedrepo-')
        for item in ('src', 'Cargo.toml', 'Cargo.lock'):
            s_, d_ = os.path.join(REPO, item), os.path.join(tmp, item)
            shutil.copytree(s_, d_) if os.path.isdir(s_) else shutil.copy(s_, d_)
        r = subprocess.run(['patch', '-p1', '-s', '-i', patch], cwd=tmp, capture_output=True, text=True)
        if r.returncode != 0:
            print('patch does not apply to the current tree:', (r.stdout + r.stderr)[-300:])
            shutil.rmtree(tmp, ignore_errors=True)
            sys.exit(2)
        env['VERIF_REPO'] = tmp
    results = {}
    try:
        props = ['C%02d' % i for i in range(1, 21)]
        for p in props:
            r = subprocess.run(['python3', '-m', 'analysis.check', p, '--tier', 'quick'], cwd=VERIF, env=env, capture_output=True, text=True)
            keys = [l.split('key: ', 1)[1].strip() for l in r.stdout.splitlines() if l.strip().startswith('key: ')]
            results[p] = {'rc': r.returncode, 'keys': keys}
            if r.returncode == 2:
                results[p]['errors'] = [l for l in r.stdout.splitlines() if l.startswith('ERROR')][:3]
    finally:
        if in_repo:
            sh(['git', '-C', REPO, 'checkout', '--', '.'])
        if tmp:
            shutil.rmtree(tmp, ignore_errors=True)
        shutil.rmtree(env['VERIF_OUT_DIR'], ignore_errors=True)
    return results


def recheck(sid):
    """re-run all checks against a stored seeded change (after the checks were strengthened)"""
    d = os.path.join(VERIF, 'seeded', sid)
    meta = json.load(open(os.path.join(d, 'meta.json')))
    results = run_checks(os.path.join(d, 'patch.diff'))
    first = meta.get('caught_by_first_run', meta.get('caught_by', []))
    meta['caught_by_first_run'] = first
    meta['checks'] = {p: v for p, v in results.items() if v['rc'] != 0}
    meta['caught_by'] = [p for p, v in results.items() if v['rc'] == 1]
    meta['verdict'] = 'confirmed; ' + ('caught by ' + ','.join(meta['caught_by']) if meta['caught_by'] else 'MISSED by all checks')
    if not first and meta['caught_by']:
        meta['verdict'] += ' (missed at the first run; caught after the checks were strengthened)'
    json.dump(meta, open(os.path.join(d, 'meta.json'), 'w'), indent=1)
    print(sid, meta['verdict'], {p: v['keys'][:3] for p, v in meta['checks'].items()})


def main():
    if sys.argv[1] == '--recheck':
        for sid in sys.argv[2:]:
            recheck(sid)
        return
    sid, src, prop = sys.argv[1], sys.argv[2], sys.argv[3]
    demo_test = None
    if '--demo-test' in sys.argv:
        demo_test = sys.argv[sys.argv.index('--demo-test') + 1]
    patch = os.path.join(src, 'patch.diff')
    demo = os.path.join(src, 'demo.diff')
    meta = {'seed': sid, 'property': prop, 'ran': []}
    base = json.load(open('/root/.vp/BASELINE.json'))
    stable = [t.split('::', 2)[2] for t in base['stable_pass']]

    wt = tempfile.mkdtemp(prefix='seedchk-')
    os.rmdir(wt)
    sh(['git', '-C', REPO, 'worktree', 'add', '-q', '--detach', wt, 'HEAD'])
    try:
        rc, out = sh(['git', 'apply', patch], cwd=wt)
        if rc != 0:
            print('patch does not apply:', out[-400:])
            meta['verdict'] = 'rejected: patch does not apply'
            return finish(meta, sid, src)
        rc, out = sh(['cargo', 'build', '--offline'], cwd=wt)
        meta['ran'].append('cargo build --offline (with change): rc=%d' % rc)
        if rc != 0:
            meta['verdict'] = 'rejected: does not compile'
            print(out[-600:])
            return finish(meta, sid, src)
        rc, res, out = run_tests(wt)
        failed = [t for t, r in res.items() if r != 'ok']
        # order/timing-flaky socket tests (also on the pinned commit): re-run each failing test alone, up to 4 times
        still = []
        for t in failed:
            ok = False
            for _ in range(4):
                rc2, res2, _o = run_tests(wt, t.split('::')[-1])
                if res2 and all(v == 'ok' for v in res2.values()):
                    ok = True
                    break
            if not ok:
                still.append(t)
        failed = still
        stable_bad = [t for t in stable if res.get(t) != 'ok']
        meta['ran'].append('cargo test --offline -- --test-threads 1 (with change): %d tests, still failing after 4 single re-runs: %s; baseline-38 not ok: %s'
                           % (len(res), failed, stable_bad))
        meta['suite_failed'] = failed
        if stable_bad:
            meta['verdict'] = 'rejected: baseline tests fail'
            return finish(meta, sid, src)
        if failed:
            meta['verdict'] = 'rejected: existing tests fail with the change: %s' % failed
            return finish(meta, sid, src)
        # demonstration
        rc, out = sh(['git', 'apply', demo], cwd=wt)
        if rc != 0:
            meta['verdict'] = 'rejected: demo does not apply on top of the change'
            print(out[-400:])
            return finish(meta, sid, src)
        if demo_test is None:
            names = re.findall(r'^\+\s*(?:async )?fn (\w+)\(', open(demo).read(), re.M)
            demo_test = names[0] if names else None
        meta['demo_test'] = demo_test
        rc_with, res_with, out_with = run_tests(wt, demo_test)
        sh(['git', 'apply', '-R', patch], cwd=wt)
        rc_without, res_without, out_without = run_tests(wt, demo_test)
        fw = [t for t, r in res_with.items() if r != 'ok']
        fwo = [t for t, r in res_without.items() if r != 'ok']
        meta['ran'].append('demo %s with change: %s' % (demo_test, res_with))
        meta['ran'].append('demo %s without change: %s' % (demo_test, res_without))
        if not fw or fwo or not res_without:
            meta['verdict'] = 'rejected: demonstration does not (fail with / pass without) the change'
            return finish(meta, sid, src)
    finally:
        sh(['git', '-C', REPO, 'worktree', 'remove', '--force', wt])
    results = run_checks(patch)
    meta['checks'] = {p: v for p, v in results.items() if v['rc'] != 0}
    caught = [p for p, v in results.items() if v['rc'] == 1]
    meta['caught_by'] = caught
    meta['verdict'] = 'confirmed; ' + ('caught by ' + ','.join(caught) if caught else 'MISSED by all checks')
    return finish(meta, sid, src)


def finish(meta, sid, src):
    d = os.path.join(VERIF, 'seeded', sid)
    os.makedirs(d, exist_ok=True)
    for f in ('patch.diff', 'demo.diff', 'notes.md'):
        p = os.path.join(src, f)
        if os.path.exists(p):
            shutil.copy(p, os.path.join(d, f))
    json.dump(meta, open(os.path.join(d, 'meta.json'), 'w'), indent=1)
    print(json.dumps({k: meta.get(k) for k in ('seed', 'property', 'verdict', 'caught_by', 'checks')}, indent=1)[:3000])


if __name__ == '__main__':
    main()
