#!/usr/bin/env python3
"""Regenerates MANIFEST.json from rules/manifest_data.py (kept as code so that the claimed checks,
their technique strings and the not_applicable list stay in one reviewed place)."""
import json, os, sys
VERIF = os.path.dirname(os.path.dirname(os.path.abspath(__file__)))
sys.path.insert(0, VERIF)
from rules import manifest_data as md

checks = []
for pid in sorted(md.CHECKS):
    c = md.CHECKS[pid]
    checks.append({
        'property_id': pid,
        'quick_cmd': 'bin/check %s --tier quick' % pid,
        'thorough_cmd': 'bin/check %s --tier thorough' % pid,
        'evidence_file': '/verif/evidence/%s.json' % pid,
        'replay_cmd_template': 'cat {path}',
        'engine': 'ircx+rules',
        'level_claimed': {'category': 'other', 'text': c['level'], 'design_ref': 'DESIGN.md section 5, ' + pid},
        'level_note': c['note'],
        'technique': c['technique'],
    })
na = [{'property_id': p, 'reason': r} for p, r in sorted(md.NOT_APPLICABLE.items())]
m = {
    'version': 1,
    'setup_cmd': 'bin/setup',
    'hooks': {
        'guard': 'simple_irc_server_verif',
        'enable': 'none needed: the checker only reads /repo (cargo +nightly check through the ircx rustc driver); no source hooks exist',
        'baseline_off_cmd': 'cd /repo && cargo test --workspace --no-fail-fast --offline',
        'source_commits': [],
        'add_only': True,
    },
    'engines': [
        {'name': 'ircx', 'path': 'extractor/', 'serves_properties': sorted(md.CHECKS),
         'kind_free_text': 'rustc_private driver exporting THIR/MIR/items of the current /repo tree'},
        {'name': 'rules', 'path': 'analysis/ + rules/', 'serves_properties': sorted(md.CHECKS),
         'kind_free_text': 'path-condition / provenance / effect-census / obligation rules over the exported program (Python, stdlib only)'},
    ],
    'checks': checks,
    'not_applicable': na,
    'notes': md.NOTES,
}
json.dump(m, open(os.path.join(VERIF, 'MANIFEST.json'), 'w'), indent=1)
print('MANIFEST.json: %d checks, %d not_applicable' % (len(checks), len(na)))
