"""C06 — Every way a session ends leaves no trace in the live state."""
from .common import *  # noqa: F401,F403
from .structs import (P, ME, container_census, live_nick_containers, RANK_SETS, CONTAINERS)
from .C01 import select_arms

TEARDOWN_INLINE = ('remove_user_from_channel', 'remove_operator', 'remove_half_operator', 'remove_founder', 'remove_voice',
                   'remove_protected', 'insert_to_nick_history')


def check(cx):
    ck = cx.check
    ck.decides += [
        'R6.1 in the connection task every path from a successful register_conn_state to the end passes through MainState::remove_user; the serving loop has no exit other than the quit flag',
        'R6.2 every termination cause stores the quit flag: EOF, pong timeout, KILL/DIE notice, QUIT (password failure: C03 R3.4); is_quit reads that flag',
        'R6.3 every String-keyed container of the state is classified; every nick-keyed live container is cleaned with the departing nick by the (inlined) teardown; exactly one WHOWAS record is pushed',
        'R6.4 a channel is deleted exactly when its last member was removed and it is not preconfigured',
        'R6.5 teardown touches only entries keyed by the departing nick / the channels of the departing user',
        'R6.6 (imported) a registered connection stays marked as registered until teardown (C03 R3.3/R3.6) and owns the nick it tears down (C02 R2.3/R2.5/R2.6)',
    ]
    ck.does_not_decide += ['OS-level delivery of EOF/RST', 'that the nick is the connection\'s own registered nick (C02 R2.6: violated on the pinned tree)',
                           'counters (C19)']
    ck.assume('tokio_util Framed yields None after a decoder error other than over-length, i.e. such an error ends in the EOF arm')
    prog = cx.prog

    # ---------------------------------------------------------------- R6.1
    r1 = cx.rule('R6.1', 'teardown must-pass-through in the connection task', floor=3, kind='must-pass-through')
    fu = cx.fn('user_state_process')
    w = cx.walk(fu, args=[P('main_state'), P('stream'), P('addr')], key='c06')
    reg = [e for e in w.events if is_call(e, 'register_conn_state')]
    rm = [e for e in w.events if is_call(e, 'remove_user') and e.data.get('local')]
    r1.instance('register_conn_state sites: %d, remove_user sites: %d' % (len(reg), len(rm)))
    if len(reg) != 1:
        raise AnchorLost('user_state_process: register_conn_state call not found')
    regv = ('call', reg[0].data['callee']) + tuple(reg[0].data['args'])
    conn = ('some_of', regv)
    served = Atom(('is', regv, 'Some'))
    good = [e for e in rm if e.data['args'][1] == conn and equivalent(e.pc, served)[0] and not e.loops]
    if len(good) != 1:
        r1.violation('user_state_process|no-teardown', 'the connection task does not unconditionally call remove_user(conn_state) after '
                     'serving a registered connection state', loc=fu)
    r1.instance('no early exit between registration and teardown')
    lo = reg[0].seq
    hi = good[0].seq if good else 10 ** 9
    for e in w.events:
        if lo < e.seq < hi and e.kind in ('return', 'try'):
            r1.violation('user_state_process|early-exit|%s' % e.kind, 'the connection task can leave (%s) before teardown' % e.kind, loc=cx.loc(e.node))
    r1.instance('serving loop exits only on the quit flag')
    isq = None
    for e in w.events:
        if is_call(e, 'is_quit') and e.data['args'][0] == conn:
            isq = Atom(('call', e.data['callee'], conn))
    if isq is None:
        raise AnchorLost('user_state_process: is_quit() loop condition not found')
    for e in w.events:
        if e.kind == 'break' and lo < e.seq < hi:
            if not entails(e.pc, isq)[0]:
                r1.violation('user_state_process|loop-exit', 'the serving loop can end although the session was not marked as quitting',
                             loc=cx.loc(e.node))
    procs = [e for e in w.events if is_call(e, 'process') and e.data.get('local') and e.loops]
    if not procs:
        r1.violation('user_state_process|no-serving', 'the serving loop does not process events', loc=fu)
    # MainState::remove_user: takes the write guard and calls VolatileState::remove_user
    ft = cx.fn('remove_user', 'MainState')
    wt = cx.walk(ft, args=[SELF, CONN], inline=('remove_user',) + TEARDOWN_INLINE, key='c06', max_depth=5)
    # is_quit body
    fq = cx.fn('is_quit')
    wq = cx.walk(fq, args=[ME])
    r1.instance('is_quit reads the quit flag')
    v = sym.as_formula(wq.retval)
    okq = [a for a in atoms(v) if a[0] == 'eq' and a[1][0] == 'call' and a[1][1].endswith('::load') and a[1][2] == field(ME, 'quit') and a[2] == ('lit', 0)]
    if not okq or not equivalent(v, Not(Atom(okq[0])))[0]:
        r1.violation('ConnState::is_quit|body', 'is_quit is not (quit flag != 0)', loc=fq)

    # ---------------------------------------------------------------- R6.6 imported
    r6 = cx.rule('R6.6', 'the teardown gate `authenticated` is true exactly for the registered owner (imported)', floor=2, kind='dependency')
    depends(cx, r6, 'C03', ('R3.3', 'R3.6'), 'authenticated is written only by authenticate(), which is not re-entered once registered',
            only=r'writes-authenticated|authenticate-reentry')
    depends(cx, r6, 'C02', ('R2.3', 'R2.5', 'R2.6'), 'the connection owns the nick it tears down')
    depends(cx, r6, 'C02', ('R2.1',), 'only the teardown takes a user out of the registry (it finds the entry it has to clean up after)',
            only=r'registry-remove|calls-remove_user')
    # the teardown clears the containers under the nick the connection holds now: every nick-keyed container must hold the user under
    # that nick, i.e. a nick change moves every entry (an entry left under the old nick survives the session)
    depends(cx, r6, 'C15', ('R15.2',), 'a nick change leaves no entry under the old nick (the teardown only clears the current one)',
            only=r'rekey\|(?!wallops-condition\|(?!stale))')

    # the teardown needs the write lock: it gets it only if no other session keeps the lock while it waits for a peer's socket
    depends(cx, r6, 'C05', ('R5.2',), 'no session holds the state lock while waiting for a socket (a teardown is never locked out)')

    # ---------------------------------------------------------------- R6.2
    r2 = cx.rule('R6.2', 'termination causes store the quit flag', floor=4, kind='must-exist')
    pi = cx.fn('process_internal')
    wi = cx.walk(pi)
    arms = select_arms(prog, pi)

    def arm_tag(desc):
        try:
            return '_%d' % arms.index(desc)
        except ValueError:
            raise AnchorLost('select arm %s not found' % desc)
    stores = [e for e in wi.events if is_call(e, 'store') and e.data['args'][0] == ('field', CONN, 'quit') and e.data['args'][1] == ('lit', 1)]

    def in_arm(e, tag):
        return any(c[0] == 'a' and c[1][0] == 'is' and c[1][2] == tag for c in conjuncts(e.pc))
    for desc, what in (('conn_state.timeout_receiver.recv()', 'pong timeout'), ('conn_state.quit_receiver', 'KILL/DIE notice')):
        tag = arm_tag(desc)
        r2.instance('%s arm stores quit' % what)
        mine = [e for e in stores if in_arm(e, tag)]
        extra = [a for e in mine for a in atoms(e.pc) if 'poll_fn' not in repr(a)]
        if not mine or extra:
            r2.violation('process_internal|no-quit|%s' % what, 'the %s arm does not (unconditionally) end the session' % what, loc=pi)
    tag = arm_tag('conn_state.stream.next()')
    r2.instance('EOF stores quit')
    eof = [e for e in stores if in_arm(e, tag)]
    okeof = False
    for e in eof:
        nonplumb = [c for c in conjuncts(e.pc) if not all('poll_fn' in repr(a) for a in atoms(c))]
        if not nonplumb:
            okeof = True
    # the EOF condition is "stream.next() yielded None": expressed on the arm payload, which mentions poll_fn
    okeof = okeof or any(any(c[0] == '!' and c[1][0] == 'a' and c[1][1][0] == 'is' and c[1][1][2] == 'Some' and tag in repr(c[1][1][1])
                             for c in conjuncts(e.pc)) for e in eof)
    if not okeof:
        r2.violation('process_internal|no-quit|EOF', 'end of stream does not end the session', loc=pi)
    fqt = cx.fn('process_quit')
    wqt = cx.walk(fqt, args=[SELF, CONN])
    qs = [e for e in wqt.events if is_call(e, 'store') and e.data['args'][0] == ('field', CONN, 'quit') and e.data['args'][1] == ('lit', 1)]
    r2.instance('QUIT stores quit')
    if not qs or any(e.pc != T for e in qs):
        r2.violation('process_quit|no-quit', 'QUIT does not unconditionally end the session', loc=fqt)

    # ---------------------------------------------------------------- R6.3
    r3 = cx.rule('R6.3', 'container census fully cleaned by teardown', floor=20, kind='census')
    found = container_census(cx, r3)
    NICKT = CONN_NICK
    effs = effects(wt, prog)
    removed_by_field = {}
    for e, x in effs:
        if x['op'] == 'remove' and x['args'][:1] == [NICKT]:
            names = [n for n in path_of(x['place']) if n != '[]']
            if names:
                removed_by_field.setdefault(names[-1], []).append(e)
    for (sp, fname) in live_nick_containers(found):
        r3.instance('teardown removes nick from %s.%s' % (sp.split('::')[-1], fname))
        if fname not in removed_by_field:
            r3.violation('teardown|not-cleaned|%s.%s' % (sp.split('::')[-1], fname), 'when a session ends its nick is not removed from %s.%s'
                         % (sp.split('::')[-1], fname), loc=ft)
            continue
        # the removal may depend only on things being present (the user, the visited channel, the member's rank flag for that very
        # set); any other condition leaves a stale entry behind for some history
        from .structs import RANK_FLAG
        ok_any = False
        for e in removed_by_field[fname]:
            assume = [Atom(a) for a in atoms(e.pc) if a[0] == 'is' or a == CONN_AUTH or
                      (a[0] == 'flag' and fname in RANK_FLAG and path_of(a[1])[-1:] == [RANK_FLAG[fname]])]
            if entails(And(*assume), e.pc)[0]:
                ok_any = True
        if not ok_any:
            r3.violation('teardown|conditional-clean|%s.%s' % (sp.split('::')[-1], fname), 'when a session ends its nick is removed from %s.%s '
                         'only under an extra condition (%s): some histories leave a stale entry behind'
                         % (sp.split('::')[-1], fname, show(removed_by_field[fname][0].pc)[-120:]), loc=cx.loc(removed_by_field[fname][0].node))
    # the record is added by a push onto the nick's list or by inserting a new list that holds it (first departure of that nick):
    # exactly one of them on every path
    hist = [(e, x) for e, x in effs if 'nick_histories' in path_of(x['place']) and 'history_entry' in repr(x['args'])
            and (x['op'] == 'push' or (x['op'] == 'insert' and path_of(x['place'])[-1:] == ['nick_histories']))]
    r3.instance('one WHOWAS record per departure')
    ent = ('some_of', ('call', 'std::collections::HashMap::<K, V, S>::remove', USERS, NICKT))
    okh = len(hist) >= 1 and all(mentions(x['place'], NICKT) or mentions(x['args'][:1], NICKT) for e, x in hist) and \
        all(sat(And(a[0].pc, b[0].pc)) is None for i_, a in enumerate(hist) for b in hist[i_ + 1:])
    if okh:
        # unconditional once the user was found in the registry
        was = [a for a in atoms(hist[0][0].pc) if a[0] == 'is' and a[2] == 'Some' and a[1][0] == 'call' and a[1][1].endswith('::remove')]
        okh = bool(was) and entails(And(is_some(NICK_OPT), Atom(CONN_AUTH), *[Atom(a) for a in was]), Or(*[e.pc for e, x in hist]))[0]
    if not okh:
        r3.violation('teardown|whowas-record', 'a departing user does not get exactly one WHOWAS record (its own history entry under its nick)',
                     loc=ft)

    # ---------------------------------------------------------------- R6.4
    r4 = cx.rule('R6.4', 'empty non-preconfigured channels vanish', floor=2, kind='equivalence')
    rule_channel_deletion(cx, r4)

    # ---------------------------------------------------------------- R6.5
    r5 = cx.rule('R6.5', 'teardown touches only the departing nick\'s entries', floor=10, kind='provenance')
    removed_user = None
    for e, x in effs:
        if x['op'] == 'remove' and x['place'] == USERS:
            removed_user = ('some_of', ('call', e.data['callee'], USERS, NICKT))
    if removed_user is None:
        r5.violation('teardown|no-registry-removal', 'teardown does not remove the user from the registry', loc=ft)
        return
    own_chan = ('elem', field(removed_user, 'channels'))
    allowed_fields = set(RANK_SETS) | {'users', 'wallops_users', 'nick_histories', 'channels', 'operators_count',
                                       'invisible_users_count'}
    for e, x in effs:
        if x['op'] in ('get_mut', 'take'):
            continue
        desc = '%s %s' % (x['op'], show_term(x['place'])[:70])
        r5.instance(desc)
        place = x['place']
        ukeys = [t[2] for t in subterms(place) if isinstance(t, tuple) and len(t) == 3 and t[0] in ('idx', 'get') and t[1] == USERS]
        ckeys = [t[2] for t in subterms(place) if isinstance(t, tuple) and len(t) == 3 and t[0] in ('idx', 'get') and t[1] == CHANNELS]
        names = [n for n in path_of(place) if n != '[]']
        bad = None
        if any(k != NICKT for k in ukeys):
            bad = 'another user\'s entry'
        if any(k != own_chan for k in ckeys):
            bad = 'a channel the user was not on'
        if x['op'] in ('remove', 'insert') and x['args'] and names[-1:] != ['channels'] and names[-1:] != ['nick_histories'] \
                and x['args'][0] not in (NICKT,) and not (names[-1:] == ['channels'] and x['args'][0] == own_chan):
            if not (place == CHANNELS and x['args'][0] == own_chan):
                bad = 'key %s' % show_term(x['args'][0])
        if names and names[-1] not in allowed_fields and x['op'] != 'assign':
            bad = 'field %s' % names[-1]
        if x['op'] == 'assign' and names[-1:] and names[-1] in RANK_SETS:
            bad = None if not bad else bad
        if x['op'] == 'assign' and names[-1:] and names[-1] not in set(RANK_SETS) | {'operator', 'half_oper', 'voice', 'founder', 'protected'}:
            bad = 'field %s' % names[-1]
        if bad:
            r5.violation('teardown|foreign-effect|%s' % desc, 'ending a session changes %s: %s' % (bad, desc), loc=cx.loc(e.node))


def rule_channel_deletion(cx, rule):
    """remove_user_from_channel removes both sides and deletes the channel exactly when it became empty and is not preconfigured
       (shared: C06 R6.4, C16 R16.2)"""
    prog = cx.prog
    fr = cx.fn('remove_user_from_channel')
    CHN, NK = P('channel'), P('nick')
    wr = cx.walk(fr, args=[STATE, CHN, NK], key='c06')
    reffs = effects(wr, prog)
    ch = chan(CHN)
    dele = [(e, x) for e, x in reffs if x['op'] == 'remove' and x['place'] == CHANNELS]
    side1 = [(e, x) for e, x in reffs if x['op'] == 'remove_user' and x['place'] == ch and x['args'][:1] == [NK]]
    side2 = [(e, x) for e, x in reffs if x['op'] == 'remove' and x['place'] == field(user(NK), 'channels') and x['args'][:1] == [CHN]]
    rule.instance('channel deletion condition')
    want = And(has(CHANNELS, CHN), Atom(('empty', field(ch, 'users'))), Not(flag(field(ch, 'preconfigured'))))
    if len(dele) != 1 or dele[0][1]['args'][:1] != [CHN] or not equivalent(dele[0][0].pc, want)[0]:
        rule.violation('remove_user_from_channel|deletion-condition', 'a channel is not deleted exactly when it became empty and is not '
                     'preconfigured', loc=fr)
    elif side1 and dele[0][0].seq < side1[0][0].seq:
        rule.violation('remove_user_from_channel|deletion-order', 'emptiness is tested before the member is removed', loc=fr)
    rule.instance('both sides of the membership are removed')
    if len(side1) != 1 or len(side2) != 1 or not equivalent(side1[0][0].pc, has(CHANNELS, CHN))[0] \
            or not equivalent(side2[0][0].pc, has(USERS, NK))[0]:
        rule.violation('remove_user_from_channel|both-sides', 'a departure does not remove both the channel\'s member entry and the user\'s '
                     'channel entry', loc=fr)
    for e, x in reffs:
        if (e, x) not in dele + side1 + side2 and x['op'] != 'get_mut':
            rule.violation('remove_user_from_channel|other-effect|%s' % x['op'], 'unexpected effect %s %s' % (x['op'], show_term(x['place'])), loc=cx.loc(e.node))

