"""C07 — JOIN admits exactly those whom key, bans, invitation, limit and quota allow.

Decided statically (DESIGN.md section 5, C07): the admission condition computed by
process_join is logically equivalent to the conjunction in the property statement;
every refusal stage emits its numeric; every state effect and every cross-user send of
the handler is guarded by the admission condition; an accepted JOIN performs the
membership insertion on both sides, consumes the invitation and is announced.
"""
from analysis.formula import rename
from .common import *  # noqa: F401,F403

CH_PARAM = ('param', 'channels')
KEYS = ('param', 'keys')
C = ('elem', CH_PARAM)
CH = chan(C)
MODES = field(CH, 'modes')
ME = user(CONN_NICK)


def V(name):
    return Atom(('v', name))


def classify(atom, jc_terms):
    """map a concrete atom of process_join to a variable of the property's formula"""
    a = atom
    if a == ('is', ('get', CHANNELS, C), 'Some'):
        return 'exists'
    if a == ('is', field(MODES, 'key'), 'Some'):
        return 'k'
    if a == ('is', KEYS, 'Some'):
        return 'kp'
    if a[0] == 'eq':
        pair = {a[1], a[2]}
        want = {('index', ('some_of', KEYS), ('index_of', CH_PARAM)), ('some_of', field(MODES, 'key'))}
        if pair == want:
            return 'ke'
    if a[0] == 'call' and a[1].endswith('ChannelModes::banned') and a[2:] == (MODES, CONN_SOURCE):
        return 'b'
    if a == ('flag', field(MODES, 'invite_only')):
        return 'io'
    if a == ('is', ('get', field(ME, 'invited_to'), C), 'Some'):
        return 'iv'
    ie = field(MODES, 'invite_exception')
    if a == ('is', ie, 'Some'):
        return 'ixs'
    if a[0] == 'any' and a[1] == ('some_of', ie):
        body = a[2]
        if body[0] == 'a' and body[1][0] == 'call' and body[1][1].endswith('match_wildcard') \
                and body[1][2:] == (('elem', ('some_of', ie)), CONN_SOURCE):
            return 'ixm'
    cl = field(MODES, 'client_limit')
    if a == ('is', cl, 'Some'):
        return 'l'
    if a == ('lt', ('len', field(CH, 'users')), ('some_of', cl)):
        return 'lf'
    if a == ('is', ('get', field(CH, 'users'), CONN_NICK), 'Some'):
        return 'm'
    mj = field(CONFIG, 'max_joins')
    if a == ('is', mj, 'Some'):
        return 'q'
    if a[0] == 'lt' and a[2] == ('some_of', mj) and a[1] in jc_terms:
        return 'qf'
    return None


def abstract(f, jc_terms):
    unknown = []

    def fn(a):
        v = classify(a, jc_terms)
        if v is None:
            # a presence test re-made inside the applying loop (versioned by the walker) is a free fact of its own, not a
            # modelling gap: it stays in the formula and the comparison with the specification stays an equivalence
            if not (a[0] == 'is' and a[1][0] == 'get' and isinstance(a[1][1], tuple) and a[1][1][:1] == ('ver',)) and a not in unknown:
                unknown.append(a)
            return Atom(a)
        return V(v)
    return rename(f, fn), unknown


def spec():
    e, k, kp, ke, b, io, iv, ixs, ixm, l, lf, m, q, qf = [V(x) for x in (
        'exists', 'k', 'kp', 'ke', 'b', 'io', 'iv', 'ixs', 'ixm', 'l', 'lf', 'm', 'q', 'qf')]
    keyok = Or(Not(k), And(kp, ke))
    invok = Or(Not(io), iv, And(ixs, ixm))
    limok = Or(Not(l), lf)
    quota = Or(Not(q), qf)
    J = And(e, keyok, Not(b), invok, limok, Not(m), quota)
    stages = {
        'ErrBadChannelKey475': And(e, k, Not(And(kp, ke))),
        'ErrBannedFromChan474': And(e, keyok, b),
        'ErrInviteOnlyChan473': And(e, keyok, Not(b), io, Not(iv), Not(And(ixs, ixm))),
        'ErrChannelIsFull471': And(e, keyok, Not(b), invok, l, Not(lf)),
        'ErrTooManyChannels405': And(q, Not(qf)),
    }
    create = And(Not(e), quota)
    return J, stages, create


def check(cx):
    ck = cx.check
    ck.decides += [
        'R7.1 admission formula of process_join is equivalent to the stated conjunction (truth table over 14 atoms)',
        'R7.1b ChannelModes::banned = some ban matches and no exception matches',
        'R7.2 each refusal stage emits its own numeric (475/474/473/471/405) and only then',
        'R7.3 every state effect and cross-user send of the handler is guarded by the admission condition',
        'R7.4 an accepted JOIN inserts the membership on both sides, consumes the invitation, echoes and announces',
        'R7.6 join quota counter starts at the number of joined channels and grows by one per accepted join',
    ]
    ck.does_not_decide += ['match_wildcard semantics (C14)', 'behaviour of a concrete multi-client history']
    prog = cx.prog
    fn = cx.fn('process_join')
    args = [SELF, CONN, CH_PARAM, KEYS]
    w = cx.walk(fn, args=args, key='c07')
    J, stages, create = spec()

    # ---- join counter definition (R7.6)
    r6 = cx.rule('R7.6', 'quota counter definition', floor=2, kind='provenance')
    jc_terms = set()
    for e in w.events:
        if e.kind == 'assign' and e.data.get('init') and e.data['lhs'][0] == 'mvar':
            if e.data['rhs'] == ('len', field(ME, 'channels')):
                jc_terms.add(e.data['lhs'])
                r6.instance('counter %s initialised to len(users[own nick].channels)' % e.data['lhs'][1])
    if not jc_terms:
        r6.violation('process_join|quota-counter-init', 'no counter initialised to the number of channels the '
                     'user is in (the max_joins comparison has nothing sound to compare)', loc=fn)

    # ---- locate decision: the add_user call and the channel creation
    adds = [e for e in w.events if is_call(e, 'add_user') and e.data.get('local')]
    creates = [e for e in w.events if is_call(e, 'insert') and e.data['args'][0] == CHANNELS]
    r1 = cx.rule('R7.1', 'admission formula equivalence', floor=2, kind='equivalence')
    Jc = None
    for e in adds:
        f, unk = abstract(e.pc, jc_terms)
        Jc = f
        desc = 'join-existing decision at Channel::add_user'
        r1.instance(desc)
        if e.data['args'][0] != CH or e.data['args'][1] != CONN_NICK:
            r1.violation('process_join|add_user-args', 'add_user is not applied to (channels[requested name], own nick): %s'
                         % (show_term(e.data['args'][0]),), loc=cx.loc(e.node))
        if unk:
            ok, m = entails(f, J)
            r1.undecide('unmodelled atoms in the admission condition: %s (implication only)' %
                        ', '.join(show_term(a) for a in unk))
        else:
            ok, m = equivalent(f, J)
        if not ok:
            r1.violation('process_join|admission-formula', 'the condition under which the user is added to an existing '
                         'channel is not equivalent to key&&!banned&&invite&&limit&&!member&&quota; differs when: %s'
                         % (m,), loc=cx.loc(e.node), found=show(f), expected=show(J))
    if not adds:
        r1.violation('process_join|no-add_user', 'process_join never adds the user to an existing channel', loc=fn)
    for e in creates:
        f, unk = abstract(e.pc, jc_terms)
        r1.instance('create decision at channels.insert')
        ok, m = (entails(f, create) if unk else equivalent(f, create))
        if not ok:
            r1.violation('process_join|create-formula', 'channel creation is not guarded by exactly '
                         '(!exists && quota); differs when: %s' % (m,), loc=cx.loc(e.node), found=show(f))
        a = e.data['args']
        val = a[2] if len(a) > 2 else None
        if a[1] != C or not (isinstance(val, tuple) and val[0] == 'call' and val[1].endswith('new_on_user_join')
                             and val[2] == CONN_NICK):
            r1.violation('process_join|create-args', 'created channel is not channels[requested name] = '
                         'new_on_user_join(own nick)', loc=cx.loc(e.node))
    if not creates:
        r1.violation('process_join|no-create', 'process_join never creates a channel', loc=fn)

    # ---- banned() body
    r1b = cx.rule('R7.1b', 'ChannelModes::banned body', floor=1, kind='equivalence')
    bfn = cx.fn('banned', 'ChannelModes')
    wb = cx.walk(bfn, args=[('param', 'self'), ('param', 'source')])
    bv = sym.as_formula(wb.retval)
    me = ('param', 'self')

    def anym(fld):
        lst = ('some_of', field(me, fld))
        return And(is_some(field(me, fld)),
                   Atom(('any', lst, Atom(('call', cx.fn('match_wildcard'), ('elem', lst), ('param', 'source'))))))
    want = And(anym('ban'), Not(anym('exception')))
    ok, m = equivalent(bv, want)
    r1b.instance('banned(source) == any(ban matches) && !any(exception matches)')
    if not ok:
        r1b.violation('ChannelModes::banned|body', 'banned() is not (some ban mask matches) and (no exception mask '
                      'matches): %s' % (m,), loc=bfn, found=show(bv))

    # ---- refusal numerics (R7.2)
    r1b.instance('channel and key lists reach the handler as sent, paired by position (C13 R13.14)')
    depends(cx, r1b, 'C13', ('R13.14',), 'the JOIN lists are the parameters as sent', only=r'\|JOIN\.')
    r1b.instance('the matcher behind +b / +e / +I (imported)')
    depends(cx, r1b, 'C14', ('R14.5', 'R14.2'), 'the matcher behind +b / +e / +I compares characters and terminates',
            only=r'^(match_wildcard|starts_single_wilcards)\|')
    r2 = cx.rule('R7.2', 'refusal stage -> numeric', floor=5, kind='emission')
    reps = replies(w)
    for variant, cond in stages.items():
        pcs = [abstract(e.pc, jc_terms)[0] for e, r in reps if r['variant'] == variant]
        r2.instance('%s reachable exactly in its refusal stage' % variant)
        if not pcs:
            r2.violation('process_join|missing-' + variant, 'no %s reply exists for its refusal stage' % variant, loc=fn)
            continue
        ok, m = equivalent(Or(*pcs), cond)
        if not ok:
            r2.violation('process_join|stage-' + variant, '%s is not emitted exactly when its stage fails: %s'
                         % (variant, m), loc=fn, found=show(Or(*pcs)), expected=show(cond))
    for e, r in reps:
        if r['variant'] in stages and r['fields'].get('channel') != C:
            r2.violation('process_join|numeric-channel-' + str(r['variant']), 'refusal numeric names a different channel',
                         loc=cx.loc(e.node))

    # ---- effects and sends guarded by admission (R7.3)
    r3 = cx.rule('R7.3', 'effects/sends guarded by admission', floor=5, kind='required-guard')
    allowed = Or(J, create)
    for e, x in effects(w, prog):
        p = path_of(x['place'])
        desc = '%s %s' % (x['op'], show_term(x['place']))
        if p[-1:] == ['last_activity']:
            r3.observe('users[own nick].last_activity is refreshed when the join counter moved (activity stamp, '
                       'not part of membership state)')
            if root_of(x['place']) != STATE or not mentions(x['place'], CONN_NICK):
                r3.violation('process_join|foreign-activity', 'activity stamp of a foreign user written', loc=cx.loc(e.node))
            continue
        r3.instance(desc)
        f, unk = abstract(e.pc, jc_terms)
        ok, m = entails(f, allowed)
        if not ok:
            r3.violation('process_join|unguarded-effect|' + desc, 'state effect %s can happen for a refused JOIN (%s)'
                         % (desc, model_str(m)), loc=cx.loc(e.node), pc=show(f))
    nsend = 0
    for e, s in sends(w):
        nsend += 1
        r3.instance('send to %s' % show_term(s['to']))
        f, unk = abstract(e.pc, jc_terms)
        ok, m = entails(f, allowed)
        if not ok:
            r3.violation('process_join|unguarded-send', 'JOIN is announced although it may be refused (%s)' % model_str(m),
                         loc=cx.loc(e.node))
    # joiner-directed success replies also only when accepted
    for e, r in reps:
        if r['variant'] in ('RplTopic332',) or r['source'] is not None:
            r3.instance('success reply %s' % (r['variant'] or 'JOIN echo'))
            f, unk = abstract(e.pc, jc_terms)
            ok, m = entails(f, allowed)
            if not ok:
                r3.violation('process_join|unguarded-echo', 'JOIN success reply reachable for a refused JOIN', loc=cx.loc(e.node))

    # ---- accepted JOIN effects (R7.4)
    r4 = cx.rule('R7.4', 'accepted JOIN: both sides, invitation consumed, announced', floor=5, kind='must-exist')
    eff = effects(w, prog)

    def must(desc, pred, under, key):
        r4.instance(desc)
        found = [e for e, x in eff if pred(x)]
        if not found:
            r4.violation('process_join|missing|' + key, 'an accepted JOIN does not perform: ' + desc, loc=fn)
            return
        pcs = Or(*[abstract(e.pc, jc_terms)[0] for e in found])
        ok, m = entails(under, pcs)
        if not ok:
            r4.violation('process_join|not-always|' + key, 'on some accepted JOIN the step is skipped: %s (%s)'
                         % (desc, model_str(m)), loc=cx.loc(found[0].node))

    must('users[own].channels.insert(channel)',
         lambda x: x['op'] == 'insert' and x['place'] == field(ME, 'channels') and x['args'][:1] == [C],
         Or(J, create), 'user-side-insert')
    must('users[own].invited_to.remove(channel)',
         lambda x: x['op'] == 'remove' and x['place'] == field(ME, 'invited_to') and x['args'][:1] == [C],
         J, 'consume-invitation')
    must('channels[channel].add_user(own nick)',
         lambda x: x['op'] == 'add_user' and x['place'] == CH and x['args'][:1] == [CONN_NICK], J, 'channel-side-insert')
    # announcement to every other member: send over the member map, skipping self
    r4.instance('JOIN announced to every other member')
    ann = [(e, s) for e, s in sends(w) if s['to'] == user(('elem', ('keys', field(CH, 'users'))))]
    if not ann:
        r4.violation('process_join|missing|announce', 'no JOIN announcement over the channel member map', loc=fn)
    for e, s in ann:
        k = ('elem', ('keys', field(CH, 'users')))
        ok, m = entails(e.pc, Not(sym.mk_eq(k, CONN_NICK)))
        if not ok:
            r4.observe('announcement loop does not skip the joiner (joiner receives the echo twice)')
        if s['source'] != CONN_SOURCE:
            r4.violation('process_join|announce-source', 'JOIN announcement is not attributed to the joiner', loc=cx.loc(e.node))
        f, _ = abstract(e.pc, jc_terms)
        # dropping the skip-self and membership facts, the announcement must happen for every accepted join
        from analysis.formula import subst
        f2 = e.pc
        for a in atoms(e.pc):
            if a[0] == 'eq' and k in a[1:]:
                f2 = subst(f2, a, False)      # "not the joiner itself"
            elif a == ('is', ('get', field(CH, 'users'), k), 'Some'):
                f2 = subst(f2, a, True)       # "is a member" (loop fact)
        f2, _ = abstract(f2, jc_terms)
        ok, m = entails(Or(J, create), f2)
        if not ok:
            r4.violation('process_join|announce-not-always', 'some accepted JOIN is not announced (%s)' % model_str(m),
                         loc=cx.loc(e.node))
    echo = [(e, r) for e, r in reps if r['source'] is not None]
    r4.instance('JOIN echoed to the joiner')
    if not echo:
        r4.violation('process_join|missing|echo', 'no JOIN echo to the joiner', loc=fn)
    for e in w.events:
        if e.kind == 'assignop' and e.data['lhs'] in jc_terms:
            r6.instance('counter += %s' % show_term(e.data['rhs']))
            f, unk = abstract(e.pc, jc_terms)
            ok, m = equivalent(f, Or(J, create)) if not unk else entails(f, Or(J, create))
            if e.data['op'] != 'Add' or e.data['rhs'] != ('lit', 1) or not ok:
                r6.violation('process_join|quota-counter-step', 'the quota counter is not incremented by one exactly on '
                             'accepted joins', loc=cx.loc(e.node))
            if not _step_in_decision_loop(w, e, jc_terms):
                r6.violation('process_join|quota-counter-late', 'the quota counter is incremented outside the loop that compares it with '
                             'max_joins: all channels of one JOIN are tested against the count before the command', loc=cx.loc(e.node))


def _step_in_decision_loop(w, step, jc_terms):
    """the increment happens in the loop in which the counter is compared with max_joins (so that the next channel of the same
       JOIN is tested against the updated count)"""
    mj = field(CONFIG, 'max_joins')
    first = None
    for e in w.events:
        if any(a[0] == 'lt' and a[1] in jc_terms and a[2] == ('some_of', mj) for a in atoms(e.pc)) and e.loops:
            first = e
            break
    if first is None:
        return True      # no comparison at all: reported by the comparison rules
    return bool(step.loops) and step.loops[0][1] == first.loops[0][1]


def rule_quota(cx, rule):
    """max_joins governs JOIN (shared: C20 R20.7): the only comparisons with the configured quota are
       `running counter < max_joins`, the counter starts at the number of channels the user is in and grows by one
       per accepted join, every admission (add_user / channel creation) is guarded by the comparison when a quota is
       configured, and exceeding it is answered 405"""
    prog = cx.prog
    fn = cx.fn('process_join')
    w = cx.walk(fn, args=[SELF, CONN, CH_PARAM, KEYS], key='c07')
    mj = field(CONFIG, 'max_joins')
    jc_terms = set()
    for e in w.events:
        if e.kind == 'assign' and e.data.get('init') and e.data['lhs'][0] == 'mvar' and e.data['rhs'] == ('len', field(ME, 'channels')):
            jc_terms.add(e.data['lhs'])
    rule.instance('running join counter initialised to the number of joined channels: %d' % len(jc_terms))
    if not jc_terms:
        rule.violation('process_join|quota-counter-init', 'no counter initialised to the number of channels the user is in', loc=fn)
        return
    steps = [e for e in w.events if e.kind == 'assignop' and e.data['lhs'] in jc_terms]
    for e in steps:
        if not _step_in_decision_loop(w, e, jc_terms):
            rule.violation('process_join|quota-counter-late', 'the join counter is incremented outside the loop that compares it with '
                           'max_joins: all channels of one JOIN are tested against the count before the command', loc=cx.loc(e.node))
    adds = [e for e in w.events if (is_call(e, 'add_user') and e.data.get('local')) or (is_call(e, 'insert') and e.data['args'][0] == CHANNELS)]
    rule.instance('counter steps: %d, admission sites: %d' % (len(steps), len(adds)))
    if not steps or any(e.data['op'] != 'Add' or e.data['rhs'] != ('lit', 1) for e in steps) or \
            not adds or not equivalent(Or(*[e.pc for e in steps]), Or(*[e.pc for e in adds]))[0]:
        rule.violation('process_join|quota-counter-step', 'the join counter is not incremented by one exactly on accepted joins', loc=fn)
    cmp_atoms = set()
    for e in w.events:
        for a in atoms(e.pc):
            if mentions(a, mj) and a != ('is', mj, 'Some'):
                cmp_atoms.add(a)
    rule.instance('comparisons with config.max_joins: %d' % len(cmp_atoms))
    good = [a for a in cmp_atoms if a[0] == 'lt' and a[1] in jc_terms and a[2] == ('some_of', mj)]
    for a in cmp_atoms:
        if a not in good:
            rule.violation('process_join|quota-comparison', 'max_joins is compared with %s, not with the running number of joined channels: '
                           'one multi-channel JOIN can exceed the configured limit' % show_term(a[1] if len(a) > 1 else a)[:60], loc=fn)
    if good:
        q, qf = Atom(('is', mj, 'Some')), Atom(good[0])
        for e in adds:
            rule.instance('admission guarded by the quota')
            if not entails(e.pc, Or(Not(q), qf))[0]:
                rule.violation('process_join|quota-unguarded', 'a channel can be joined/created beyond the configured max_joins', loc=cx.loc(e.node))
        e405 = [e for e, r in replies(w) if r['variant'] == 'ErrTooManyChannels405']
        rule.instance('405 when the quota is exhausted')
        if not e405 or not equivalent(Or(*[e.pc for e in e405]), And(q, Not(qf)))[0]:
            rule.violation('process_join|quota-405', 'ERR_TOOMANYCHANNELS is not sent exactly when the configured quota is exhausted', loc=fn)
    elif not cmp_atoms:
        rule.violation('process_join|quota-comparison', 'max_joins is never compared with the number of joined channels', loc=fn)


def rule_join_relative(cx, rule):
    """membership view of JOIN, relative to the handler's own decision (shared: C04 R4.7): whenever the joiner is entered into
       the membership (user side), the JOIN is echoed to the joiner and announced to the members, and never otherwise.
       Whether the decision itself is the right one is C07's business, not decided here."""
    prog = cx.prog
    fn = cx.fn('process_join')
    w = cx.walk(fn, args=[SELF, CONN, CH_PARAM, KEYS], key='c07')
    ins = [e for e, x in effects(w, prog) if x['op'] == 'insert' and x['place'] == field(ME, 'channels') and x['args'][:1] == [C]]
    rule.instance('JOIN: user-side membership inserts: %d' % len(ins))
    if not ins:
        rule.violation('process_join|relative|no-insert', 'JOIN never enters the joiner into its channel set', loc=fn)
        return
    joined = Or(*[e.pc for e in ins])
    k = ('elem', ('keys', field(CH, 'users')))
    ann = [(e, s) for e, s in sends(w) if s['to'] == user(k)]
    rule.instance('JOIN: announcement to the members <=> membership entered')
    if not ann:
        rule.violation('process_join|relative|no-announcement', 'a JOIN is not announced over the channel member map', loc=fn)
    for e, s in ann:
        f2 = e.pc
        for a in atoms(e.pc):
            if a[0] == 'eq' and k in a[1:]:
                f2 = subst(f2, a, False)
            elif a == ('is', ('get', field(CH, 'users'), k), 'Some') or a == ('is', ('get', USERS, k), 'Some'):
                f2 = subst(f2, a, True)
        ok, m = equivalent(f2, joined)
        if not ok:
            rule.violation('process_join|relative|announcement', 'the JOIN announcement and the membership change do not happen under the same '
                           'condition: members see a roster that differs from the real one (%s)' % (m,), loc=cx.loc(e.node))
    echo = [(e, r) for e, r in replies(w) if r['source'] is not None]
    rule.instance('JOIN: echo to the joiner <=> membership entered')
    if not echo or not equivalent(Or(*[e.pc for e, _ in echo]), joined)[0]:
        rule.violation('process_join|relative|echo', 'the JOIN echo to the joiner and the membership change do not happen under the same '
                       'condition', loc=cx.loc(echo[0][0].node) if echo else fn)


def rule_invitation_relative(cx, rule):
    """life cycle of an invitation, relative to the handler's own decision (shared: C09 R9.5): the pending invitation to a channel is
       taken away only when the joiner is entered into that channel, and always then (for an existing channel).  Whether the decision
       itself is the right one is C07's business."""
    prog = cx.prog
    fn = cx.fn('process_join')
    w = cx.walk(fn, args=[SELF, CONN, CH_PARAM, KEYS], key='c07')
    eff = effects(w, prog)
    ins = [e for e, x in eff if x['op'] == 'insert' and x['place'] == field(ME, 'channels') and x['args'][:1] == [C]]
    rem = [(e, x) for e, x in eff if x['op'] == 'remove' and path_of(x['place'])[-1:] == ['invited_to']]
    rule.instance('JOIN: invitation removals: %d, membership inserts: %d' % (len(rem), len(ins)))
    if not ins:
        raise AnchorLost('process_join: user-side membership insert not found')
    joined = Or(*[e.pc for e in ins])
    for e, x in rem:
        if x['place'] != field(ME, 'invited_to') or x['args'][:1] != [C]:
            rule.violation('process_join|relative|invitation-foreign', 'JOIN removes an invitation other than the joiner\'s own for the joined '
                           'channel: %s' % show_term(x['place'])[:60], loc=cx.loc(e.node))
        elif not entails(e.pc, joined)[0]:
            rule.violation('process_join|relative|invitation-consumed-without-join', 'the invitation is taken away on a path where the user is '
                           'not entered into the channel: the INVITE granted no admission', loc=cx.loc(e.node))
    exists_ = has(CHANNELS, C)
    if not rem or not entails(And(joined, exists_), Or(*[e.pc for e, _ in rem]))[0]:
        rule.violation('process_join|relative|invitation-kept', 'an invitation survives the JOIN it admitted: it grants more than one admission',
                       loc=fn)
