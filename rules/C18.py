"""C18 — Per-connection order is kept and concurrent commands take effect atomically.

Linearizability over all schedules is not decided.  Decided are the lock-discipline conditions
that make each handler one atomic step: shared state is reachable only through the RwLock
(type-level compile-fail witness in the thorough tier), every state effect happens under a write
guard, no guard is acquired while one is held, every membership fact an effect relies on was
queried under the same guard, one task per connection handling one event per iteration with
in-order buffered output, and no I/O wait under the lock.
"""
import os
import shutil
import subprocess
import tempfile
from analysis import facts as facts_mod
from .common import *  # noqa: F401,F403
from .C03 import CALLER_COORDS, cx_census, census_walks


def P(n):
    return ('param', n)


def base_fn(fn):
    return short_fn(fn.replace('::{closure#0}', ''))


def check(cx):
    ck = cx.check
    ck.decides += [
        'R18.1 VolatileState is reachable only through MainState.state (private RwLock field, accessed only as receiver of read()/write()); every shared-state effect of a handler happens under a write guard; thorough tier: mutation through a read guard does not type-check (compile-fail witness E0596 with a compiling twin)',
        'R18.2 no state-lock acquisition (direct or through a callee) while a guard is live',
        'R18.3 every membership/presence fact in the path condition of a state effect was queried under the same write guard as the effect (no check released before the act)',
        'R18.4 one task per accepted connection, one event per loop iteration, replies appended to the per-connection buffer and flushed in order after every event; each user queue has a single consumer',
        'R18.6 simultaneous claims to one nickname: the registry insert and its "nick free" check share one write guard, and the loser is not left marked as registered (shared rules C02 R2.2/R2.3)',
        'R18.5 no socket/timer await under a state guard (C05 R5.2); CPU awaits under the guard are listed as observations',
    ]
    ck.does_not_decide += ['linearizability of arbitrary interleavings as such', 'fairness of tokio\'s RwLock and scheduler, real-time bounds']
    prog = cx.prog
    census = cx_census(cx)
    walks = census_walks(cx)

    # ---------------------------------------------------------------- R18.1
    r1 = cx.rule('R18.1', 'state only through the lock; effects under a write guard', floor=25, kind='who-may-access')
    ms = prog.adts['state::MainState']
    fld = [f for f in ms['variants'][0]['fields'] if f['name'] == 'state']
    r1.instance('MainState.state: %s, visibility %s' % (fld[0]['ty'][:60] if fld else None, fld[0]['vis'][:30] if fld else None))
    if not fld or 'RwLock<state::structs::VolatileState>' not in fld[0]['ty'] or fld[0]['vis'].startswith('Public'):
        r1.violation('MainState.state|type', 'the shared state is not a private RwLock<VolatileState> field', loc='state::MainState')
    for fn, e in census:
        # every use of the field is `self.state.read()/write()`
        for a in (e.data.get('args') or []):
            if a == field(SELF, 'state') or (isinstance(a, tuple) and a[:1] == ('field',) and a[2:] == ('state',) and 'MainState' in str(e.data.get('recv_ty'))):
                if not (e.kind in ('call', 'lock') and (e.data.get('name') in ('read', 'write', 'new') or e.kind == 'lock')):
                    r1.violation('%s|raw-state-access' % base_fn(fn), 'MainState.state is used other than through read()/write()', loc=cx.loc(e.node))
    n_eff = 0
    for d, w in walks:
        b = base_fn(d)
        for e, x in effects(w, prog):
            if x['op'] in ('get_mut', 'values_mut'):
                continue
            n_eff += 1
            wg = [g for g in e.guards if g[0] == 'write']
            if not wg and b in CALLER_COORDS:
                # a helper read in its caller's coordinates: the guard is the one its (only) call site holds
                cn, ca = CALLER_COORDS[b]
                wc_ = cx.walk(cx.fn(cn), args=ca, key='callsite')
                cs_ = [c_ for c_ in wc_.events if c_.kind == 'call' and c_.data.get('local') and c_.data['name'] == b]
                if len(cs_) == 1:
                    wg = [g for g in cs_[0].guards if g[0] == 'write']
            r1.instance('%s: %s %s under %s' % (b, x['op'], show_term(x['place'])[:50], 'write' if wg else (e.guards[-1][0] if e.guards else 'NO GUARD')))
            if not wg:
                r1.violation('%s|effect-without-write-guard|%s' % (b, x['op']), '%s changes shared state (%s %s) without holding the write guard'
                             % (b, x['op'], show_term(x['place'])[:60]), loc=cx.loc(e.node))
    if cx.check.tier == 'thorough':
        witness(cx, r1)

    # ---------------------------------------------------------------- R18.2
    r2 = cx.rule('R18.2', 'no re-entrant acquisition', floor=25, kind='lock-order')
    acquires = {}
    for d, w in walks:
        top = d.replace('::{closure#0}', '')
        if any(e.kind == 'lock' for e in w.events):
            acquires[top] = True
    changed = True
    while changed:
        changed = False
        for d, w in walks:
            top = d.replace('::{closure#0}', '')
            if acquires.get(top):
                continue
            for e in w.events:
                if e.kind == 'call' and e.data.get('local') and acquires.get(e.data['callee']):
                    acquires[top] = True
                    changed = True
                    break
    for d, w in walks:
        for e in w.events:
            if e.kind == 'lock':
                r2.instance('%s: %s lock (held: %s)' % (base_fn(d), e.data['mode'], [g[0] for g in e.guards]))
                if e.guards:
                    r2.violation('%s|nested-lock' % base_fn(d), '%s acquires the state lock (%s) while already holding a %s guard: tokio\'s RwLock is '
                                 'not re-entrant, this deadlocks every session' % (base_fn(d), e.data['mode'], e.guards[-1][0]), loc=cx.loc(e.node))
            if e.kind == 'call' and e.data.get('local') and e.guards and acquires.get(e.data['callee']):
                r2.violation('%s|calls-acquirer|%s' % (base_fn(d), e.data['name']), '%s calls %s, which acquires the state lock, while holding a %s '
                             'guard (deadlock)' % (base_fn(d), e.data['name'], e.guards[-1][0]), loc=cx.loc(e.node))

    # ---------------------------------------------------------------- R18.7
    # every state access waits for the lock: with `try_read` / `try_write` the access (and whatever it would have written) is skipped
    # whenever another session holds the lock at that instant - an outcome no one-at-a-time order of the same commands produces;
    # `blocking_*` parks the executor thread of an async task instead of yielding
    r7 = cx.rule('R18.7', 'the state lock is always waited for', floor=25, kind='lock-order')
    for d, w in walks:
        for e in w.events:
            if e.kind == 'lock':
                how = e.data.get('how') or e.data['mode']
                r7.instance('%s: %s()' % (base_fn(d), how))
                if how.startswith('try_'):
                    r7.violation('%s|conditional-acquisition|%s' % (base_fn(d), how), '%s takes the state lock with %s(): under contention the '
                                 'guarded step is silently skipped, so the outcome depends on what other sessions are doing' % (base_fn(d), how),
                                 loc=cx.loc(e.node))
                elif how.startswith('blocking_'):
                    r7.violation('%s|blocking-acquisition|%s' % (base_fn(d), how), '%s takes the state lock with %s() inside an async task'
                                 % (base_fn(d), how), loc=cx.loc(e.node))

    # ---------------------------------------------------------------- R18.3
    r3 = cx.rule('R18.3', 'check and act under one guard', floor=30, kind='required-guard')
    for d, w in walks:
        b = base_fn(d)
        queries = [q for q in w.events if q.kind == 'query']
        for e, x in effects(w, prog):
            if x['op'] in ('get_mut', 'values_mut'):
                continue
            wg = [g for g in e.guards if g[0] == 'write']
            if not wg:
                continue
            for a in atoms(e.pc):
                if a[0] == 'is' and a[1][0] == 'get' and root_of(a[1][1]) == STATE:
                    m, k = a[1][1], a[1][2]
                    qs = [q for q in queries if q.data['coll'] == m and q.data['key'] == k]
                    if not qs:
                        continue   # fact comes from iteration (keys of the map itself) or a guarded collection
                    r3.instance('%s: %s relies on %s' % (b, x['op'], show_term(a)[:60]))
                    if not any(wg[0] in q.guards for q in qs):
                        r3.violation('%s|check-released-before-act|%s' % (b, show_term(a)[:50]), '%s performs %s relying on %s, which was checked '
                                     'under a guard that had been released before the write guard of the effect was taken' % (b, x['op'], show_term(a)[:60]),
                                     loc=cx.loc(e.node))

    # ---------------------------------------------------------------- R18.4
    r4 = cx.rule('R18.4', 'per-connection order', floor=4, kind='wiring')
    spawns = [(fn, e) for fn, e in census if is_call(e, 'spawn') and e.data['args'] and 'user_state_process' in repr(e.data['args'][0])]
    r4.instance('connection tasks spawned per accept: %d site(s)' % len(spawns))
    for cfg, pg in cx.progs.items():
        sp = [(fn, e) for fn, e in cx_census(cx, pg) if is_call(e, 'spawn') and e.data['args'] and 'user_state_process' in repr(e.data['args'][0])]
        if not sp or not all(e.loops for fn, e in sp):
            r4.violation('run_server|task-per-connection|%s' % cfg, '[%s] accepted connections are not each given their own task' % cfg, loc='run_server')
    fu = cx.fn('user_state_process')
    wu = cx.walk(fu, args=[P('main_state'), P('stream'), P('addr')], key='c06')
    procs = [e for e in wu.events if is_call(e, 'process') and e.data.get('local')]
    r4.instance('one event per iteration')
    if len(procs) != 1 or not procs[0].loops:
        r4.violation('user_state_process|one-event', 'the serving loop does not process exactly one event per iteration', loc=fu)
    pi = cx.fn('process_internal')
    wi = cx.walk(pi)
    r4.instance('replies are appended to the per-connection buffer')
    ffm = cx.fn('feed_msg', 'MainState')
    for nm in ('feed_msg', 'feed_msg_source'):
        wf = cx.walk(cx.fn(nm, 'MainState'), key='census')
        fd = [e for e in wf.events if is_call(e, 'feed') and e.data.get('local') and 'BufferedLineStream' in e.data['callee']]
        if len(fd) != 1 or fd[0].pc != T:
            r4.violation('%s|buffer' % nm, '%s does not append exactly one line to the connection\'s buffered stream' % nm, loc=cx.fn(nm, 'MainState'))
    recvs = [(fn, e) for fn, e in census if is_call(e, 'recv') and 'UnboundedReceiver<std::string::String>' in (e.data.get('recv_ty') or '')]
    r4.instance('user queue consumers: %d' % len(recvs))
    if len(recvs) != 1 or not recvs[0][0].startswith(pi):
        r4.violation('queue|consumers', 'a user queue is not consumed by exactly one place (the owner\'s select loop)', loc=pi)

    # ---------------------------------------------------------------- R18.6
    from .C02 import rule_insert_checked, rule_auth_implies_registered
    r6 = cx.rule('R18.6', 'one winner per nickname', floor=4, kind='required-guard')
    rule_insert_checked(cx, r6)
    rule_auth_implies_registered(cx, r6)
    # ... and a connection that lost the claim never acts on the winner's entry (teardown / select arms keyed by the nick it merely named)
    depends(cx, r6, 'C02', ('R2.6',), 'the loser of a nickname claim has no effect on the winner')

    # ---------------------------------------------------------------- R18.5
    r5 = cx.rule('R18.5', 'awaits under a guard', floor=50, kind='effect')
    depends(cx, r5, 'C05', ('R5.2',), 'no socket / timer wait is reachable while the state lock is held (also through callees)')
    for d, w in walks:
        for e in w.events:
            if e.kind == 'await' and e.guards:
                c = e.data.get('callee') or ''
                r5.instance('%s awaits %s under %s' % (base_fn(d), c.split('::')[-1], e.guards[-1][0]))
                if c.split('::')[-1] in ('argon2_verify_password_async',):
                    r5.observe('%s verifies a password (off-thread CPU work) while holding the %s guard: other sessions wait meanwhile'
                               % (base_fn(d), e.guards[-1][0]))
                nm = c.split('::')[-1]
                if (nm in ('flush', 'sleep', 'tick', 'accept', 'next', 'send') and c not in prog.bodies) or 'Framed' in c or 'tokio::time' in c:
                    r5.violation('%s|io-under-guard|%s' % (base_fn(d), nm), '%s waits for %s while holding the state %s guard' % (base_fn(d), c, e.guards[-1][0]),
                                 loc=cx.loc(e.node))
                if c in prog.bodies and nm == 'flush':
                    r5.violation('%s|io-under-guard|flush' % base_fn(d), '%s flushes the socket while holding the state %s guard' % (base_fn(d), e.guards[-1][0]),
                                 loc=cx.loc(e.node))


WITNESS_BAD = '''
#[allow(dead_code)]
impl MainState {
    async fn __verif_witness_mutate_through_read(&self) {
        let state = self.state.read().await;
        state.users.clear();
    }
}
'''
WITNESS_GOOD = '''
#[allow(dead_code)]
impl MainState {
    async fn __verif_witness_mutate_through_write(&self) {
        let mut state = self.state.write().await;
        state.users.clear();
    }
}
'''


def witness(cx, rule):
    """type-level witness: mutation through a read guard must not compile (E0596); the write twin must"""
    repo = facts_mod.REPO
    results = {}
    for name, snippet in (('bad', WITNESS_BAD), ('good', WITNESS_GOOD)):
        tmp = tempfile.mkdtemp(prefix='ircwit-')
        try:
            for item in ('src', 'Cargo.toml', 'Cargo.lock'):
                s = os.path.join(repo, item)
                d = os.path.join(tmp, item)
                shutil.copytree(s, d) if os.path.isdir(s) else shutil.copy(s, d)
            p = os.path.join(tmp, 'src', 'state', 'mod.rs')
            src = open(p).read()
            marker = '// main process to handle commands from client.'
            if marker in src:
                src = src.replace(marker, snippet + '\n' + marker, 1)
            else:
                src = src + snippet
            open(p, 'w').write(src)
            env = dict(os.environ, CARGO_NET_OFFLINE='true', CARGO_TARGET_DIR=os.path.join(facts_mod.CACHE, 'target', 'witness'),
                       RUSTFLAGS='-Awarnings')
            r = subprocess.run(['cargo', 'check', '--offline', '--bin', 'simple-irc-server', '--message-format=short'], cwd=tmp, env=env,
                               capture_output=True, text=True)
            results[name] = (r.returncode, r.stderr)
        finally:
            shutil.rmtree(tmp, ignore_errors=True)
    bad_rc, bad_err = results['bad']
    good_rc, good_err = results['good']
    rule.instance('witness: mutation through read guard -> rc=%d (%s); through write guard -> rc=%d' % (
        bad_rc, 'E0596' if 'E0596' in bad_err else 'other', good_rc))
    if good_rc != 0:
        cx.check.error('compile-fail witness: the compiling twin does not compile (witness invalid): %s' % good_err[-400:])
    elif bad_rc == 0 or 'E0596' not in bad_err:
        rule.violation('witness|read-guard-mutation-compiles', 'shared state can be mutated through a read guard (the type-level witness compiles '
                       'or fails for another reason): handlers holding only the read lock could change state concurrently', loc='state::MainState')
