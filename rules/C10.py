"""C10 — Speaking restrictions (+n, +m, bans) hold and NOTICE is never answered."""
from .common import *  # noqa: F401,F403
from .msg import model, V, T_EL, NOTICE, RANKS
from .C03 import cx_census


def check(cx):
    ck = cx.check
    ck.decides += [
        'R10.1 the delivery condition of a channel message is equivalent to ((!n && !s) || member) && !banned && (!m || (member && voice-or-higher))',
        'R10.2 every channel fan-out site is guarded by that condition',
        'R10.3 every sender-directed reply in the PRIVMSG/NOTICE handler is guarded by !notice; NOTICE passes the literal true, PRIVMSG the literal false',
        'R10.4 a refused PRIVMSG reaches exactly one 404 per failing stage; unknown channel 403; unknown nick 401',
        'R10.5 301 carries the recipient\'s away text, only for PRIVMSG to an away user; `away` is written only by AWAY on the own user',
        'R10.6 is_voice = voice or any higher rank; banned() = ban match without exception match (checked in C07)',
        "R10.7 (imported) banned() = some ban mask matches and no exception mask matches the sender's nick!user@host (C07 R7.1b; matcher roles C14 R14.4)",
    ]
    ck.does_not_decide += ['client-side auto-replies', 'parse-level 461 for malformed NOTICE (the property speaks of well-formed ones)']
    prog = cx.prog
    M = model(cx)
    w = M.w
    CS = M.can_send_spec()
    ischan, exists, notice = V('ischan'), V('exists'), V('notice')

    fan = M.fanouts()
    r1 = cx.rule('R10.1', 'delivery condition equivalence', floor=1, kind='equivalence')
    r2 = cx.rule('R10.2', 'channel fan-outs guarded by the delivery condition', floor=2, kind='required-guard')
    all_members = [x for x in fan if x[3] is None and x[2] is not None]
    if not all_members:
        r1.violation('process_privmsg_notice|no-all-members-fanout', 'no fan-out over the channel member map', loc=M.fn)
    for e, s, coll, setname, k in all_members:
        drop = [(a, True) for a in atoms(e.pc) if a == ('is', ('get', M.members, k), 'Some')]
        drop += [(a, False) for a in atoms(e.pc) if a[0] == 'eq' and k in a[1:]]
        f, unk = M.abstract(e.pc, drop)
        f = subst(f, ('v', 'nobit_ChannelAllSpecial'), True)
        want = And(ischan, exists, CS)
        r1.instance('fan-out to all members: condition %s' % ('(with unmodelled atoms)' if unk else 'fully modelled'))
        ok, m = (equivalent(f, want) if not unk else entails(f, want))
        if unk:
            r1.undecide('unmodelled atoms: ' + ', '.join(show_term(a) for a in unk))
        if not ok:
            r1.violation('process_privmsg_notice|can_send-formula', 'a channel message is delivered under a condition that is not '
                         '((!n && !s) || member) && !banned && (!m || (member && voice)): %s' % (m,), loc=cx.loc(e.node),
                         found=show(f), expected=show(want))
    for e, s, coll, setname, k in fan:
        if coll is None:
            continue
        r2.instance('fan-out over %s' % (setname or 'members'))
        f, unk = M.abstract(e.pc)
        ok, m = entails(f, And(ischan, exists, CS))
        if not ok:
            r2.violation('process_privmsg_notice|unguarded-fanout|%s' % (setname or 'members'),
                         'messages reach %s although the sender may not speak (%s)' % (setname or 'members', model_str(m)),
                         loc=cx.loc(e.node))

    # ---- imported: the ban predicate
    r7 = cx.rule('R10.7', 'ban predicate body (imported)', floor=2, kind='dependency')
    depends(cx, r7, 'C07', ('R7.1b',), 'banned() = ban match without exception match')
    depends(cx, r7, 'C14', ('R14.4',), 'masks are matched against the unmodified nick!user@host', only=r'^banned\|')
    # a ban decides who may speak only as far as the matcher decides it: the structural part of C14 about the matcher itself
    depends(cx, r7, 'C14', ('R14.5', 'R14.2'), 'the matcher behind +b / +e compares characters and terminates',
            only=r'^(match_wildcard|starts_single_wilcards)\|')


    # ---- NOTICE silence
    r3 = cx.rule('R10.3', 'sender-directed replies guarded by !notice', floor=6, kind='required-guard')
    reps = replies(w)
    for e, r in reps:
        r3.instance('reply %s' % r['variant'])
        f, unk = M.abstract(e.pc)
        ok, m = entails(f, Not(notice))
        if not ok:
            r3.violation('process_privmsg_notice|notice-answered|%s' % r['variant'], 'a NOTICE can be answered with %s' % r['variant'],
                         loc=cx.loc(e.node))
    for caller, lit_ in (('process_notice', T), ('process_privmsg', F)):
        wc = cx.walk(cx.fn(caller))
        calls = [e for e in wc.events if is_call(e, 'process_privmsg_notice')]
        r3.instance('%s passes notice=%s' % (caller, lit_ == T))
        if len(calls) != 1 or calls[0].data['args'][-1] != sym.mk_bool(lit_):
            r3.violation('%s|notice-flag' % caller, '%s does not call the common handler with notice=%s' % (caller, lit_ == T),
                         loc=cx.fn(caller))

    # ---- refusals visible to PRIVMSG
    r4 = cx.rule('R10.4', 'PRIVMSG refusals: 404 per failing stage, 403, 401', floor=5, kind='emission')
    e404 = [(e, M.abstract(e.pc)[0]) for e, r in reps if r['variant'] == 'ErrCannotSendToChain404']
    r4.instance('404 reachable whenever a PRIVMSG to an existing channel is refused')
    want = And(ischan, exists, Not(CS), Not(notice))
    ok, m = equivalent(Or(*[f for _, f in e404]), want) if e404 else (False, None)
    if not ok:
        r4.violation('process_privmsg_notice|404-coverage', '404 is not emitted exactly for refused PRIVMSGs to existing channels: %s'
                     % (m,), loc=M.fn)
    r4.instance('at most one 404 per message')
    for i in range(len(e404)):
        for j in range(i + 1, len(e404)):
            if sat(And(e404[i][1], e404[j][1])) is not None:
                r4.violation('process_privmsg_notice|404-twice', 'two 404 replies can be sent for one refused message',
                             loc=cx.loc(e404[j][0].node))
    for e, r in reps:
        if r['variant'] == 'ErrCannotSendToChain404' and r['fields'].get('channel') != M.cs:
            r4.violation('process_privmsg_notice|404-channel', '404 names a different channel', loc=cx.loc(e.node))
    for variant, want in (('ErrNoSuchChannel403', And(ischan, Not(exists), Not(notice))),
                          ('ErrNoSuchNick401', And(Not(ischan), Not(V('user_exists')), Not(notice))),
                          ('RplAway301', And(Not(ischan), V('user_exists'), Not(notice), V('away')))):
        evs = [(e, r) for e, r in reps if r['variant'] == variant]
        r4.instance('%s condition' % variant)
        if not evs:
            r4.violation('process_privmsg_notice|missing-%s' % variant, 'no %s reply' % variant, loc=M.fn)
            continue
        ok, m = equivalent(Or(*[M.abstract(e.pc)[0] for e, _ in evs]), want)
        if not ok:
            r4.violation('process_privmsg_notice|cond-%s' % variant, '%s is not emitted exactly when expected: %s' % (variant, m), loc=M.fn)

    # ---- away
    r5 = cx.rule('R10.5', 'away text provenance and writer census', floor=3, kind='provenance')
    for e, r in reps:
        if r['variant'] == 'RplAway301':
            r5.instance('301 message = users[target].away')
            if r['fields'].get('message') != ('some_of', field(user(T_EL), 'away')) or r['fields'].get('nick') != T_EL:
                r5.violation('process_privmsg_notice|301-text', '301 does not carry the recipient\'s own away text', loc=cx.loc(e.node))
    for fn, e in cx_census(cx):
        if e.kind == 'assign' and not e.data.get('init') and path_of(e.data['lhs'])[-1:] == ['away']:
            r5.instance('away written in %s' % short_fn(fn))
            base = fn.replace('::{closure#0}', '')
            if not base.endswith('process_away') or e.data['lhs'] != field(user(CONN_NICK), 'away'):
                r5.violation('%s|writes-away' % short_fn(fn), 'away state written outside AWAY / for a foreign user', loc=cx.loc(e.node))

    # AWAY <text> stores exactly that text (also when one was stored before), AWAY without text clears it, 306 / 305 accordingly
    fa = cx.fn('process_away')
    TXT = ('param', 'text')
    wa = cx.walk(fa, args=[SELF, CONN, TXT], key='c10')
    place = field(user(CONN_NICK), 'away')
    given = is_some(TXT)
    writes = []
    for e, x in effects(wa, prog):
        if x['place'] == place or (x['op'] != 'assign' and x['args'] and False):
            for c_, leaf in term_cases(x['value']) if x['op'] == 'assign' else [(T, None)]:
                if sat(And(e.pc, c_)) is not None:
                    writes.append((And(e.pc, c_), x['op'], leaf, e))
    r5.instance('AWAY <text> stores the text, AWAY clears it')
    set_ok = any(op == 'assign' and v == ('some', ('some_of', TXT)) and equivalent(pc_, given)[0] for pc_, op, v, e in writes)
    clr_ok = any(op == 'assign' and v == ('none',) and equivalent(pc_, Not(given))[0] for pc_, op, v, e in writes)
    other = [(op, e) for pc_, op, v, e in writes if not (op == 'assign' and (v == ('some', ('some_of', TXT)) or v == ('none',)))]
    if not set_ok or not clr_ok or other:
        r5.violation('process_away|stored-text', 'AWAY does not store exactly the given text whenever one is given (and clear it otherwise): '
                     'a PRIVMSG to the user is then answered with a text other than the current away text', loc=fa)

    # ---- is_voice body
    r6 = cx.rule('R10.6', 'is_voice predicate body', floor=1, kind='equivalence')
    wv = cx.walk(cx.fn('is_voice'), args=[('param', 'self')])
    me = ('param', 'self')
    want = Or(*[flag(field(me, x)) for x in ('founder', 'protected', 'operator', 'half_oper', 'voice')])
    r6.instance('is_voice = founder|protected|operator|half_oper|voice')
    ok, m = equivalent(sym.as_formula(wv.retval), want)
    if not ok:
        r6.violation('ChannelUserModes::is_voice|body', 'is_voice is not "voice or any higher rank": %s' % (m,), loc=cx.fn('is_voice'))
