"""C19 — Reported statistics and presence are true; connection slots do not leak.

Coupling analysis (DESIGN.md engine E): for every function that writes the user flags
oper/local_oper/invisible/wallops, the counters operators_count/invisible_users_count or the
WALLOPS set, all abstract paths (assignments of the atoms occurring in the relevant path
conditions plus the four pre-state flags) are enumerated and at the end of each the counter
deltas are compared with the change of the predicate they are supposed to count.
This is a finite dataflow enumeration over the exported path conditions, not an execution.
"""
import itertools
from .common import *  # noqa: F401,F403
from .structs import P
from .C03 import cx_census

FLAGS = ['oper', 'local_oper', 'invisible', 'wallops']


def evalf(f, s):
    k = f[0]
    if k == 'T':
        return True
    if k == 'F':
        return False
    if k == 'a':
        return s[f[1]]
    if k == '!':
        return not evalf(f[1], s)
    if k == '&':
        return all(evalf(g, s) for g in f[1])
    if k == '|':
        return any(evalf(g, s) for g in f[1])
    raise ValueError(f)


def transitions(cx, rule, fn_name, w, modes_term, nick_term, kind, prog, fn_path, pre_in_registry=True, split_atoms=()):
    """enumerate abstract paths of one writer and check the coupling at the end of each"""
    flag_atoms = {f: ('flag', field(modes_term, f)) for f in FLAGS}
    wset = field(STATE, 'wallops_users')
    rel = []
    for e in w.events:
        if e.kind == 'assign' and not e.data.get('init') and e.data['lhs'][0] == 'field' and e.data['lhs'][1] == modes_term \
                and e.data['lhs'][2] in FLAGS:
            rel.append(('flag', e.data['lhs'][2], sym.as_formula(e.data['rhs']), e))
        elif e.kind == 'assignop' and e.data['lhs'] in (field(STATE, 'operators_count'), field(STATE, 'invisible_users_count')) \
                and e.data['rhs'] == ('lit', 1) and e.data['op'] in ('Add', 'Sub'):
            rel.append(('count', e.data['lhs'][2], 1 if e.data['op'] == 'Add' else -1, e))
        elif e.kind in ('assign', 'assignop') and not e.data.get('init') and e.data['lhs'] in (
                field(STATE, 'operators_count'), field(STATE, 'invisible_users_count')):
            rule.violation('%s|counter-write-shape' % fn_name, 'a statistics counter is written other than by +=1 / -=1', loc=cx.loc(e.node))
        elif e.kind == 'call' and e.data['name'] in ('insert', 'remove') and e.data['args'][:1] == [wset]:
            if e.data['args'][1] == nick_term:
                rel.append(('wset', e.data['name'], None, e))
            else:
                rule.violation('%s|wallops-foreign-key' % fn_name, 'the WALLOPS set is changed for a key other than the subject user', loc=cx.loc(e.node))
    universe = []
    for _, _, v, e in rel:
        for a in atoms(e.pc):
            if a not in universe:
                universe.append(a)
        if isinstance(v, tuple):
            for a in atoms(v):
                if a not in universe:
                    universe.append(a)
    for f in FLAGS:
        if flag_atoms[f] not in universe:
            universe.append(flag_atoms[f])
    # letters are mutually exclusive: enumerate per letter instead of over all eq-atoms
    letter_atoms = [a for a in universe if a[0] == 'eq' and a[2][0] == 'lit']
    others = [a for a in universe if a not in letter_atoms]
    if len(others) > 16:
        raise AnchorLost('%s: too many atoms for the coupling enumeration (%d)' % (fn_name, len(others)))
    choices = [None] + letter_atoms if letter_atoms else [None]
    n_paths = 0
    bad = {}
    for chosen in choices:
        if letter_atoms and chosen is None:
            continue
        for bits in itertools.product((False, True), repeat=len(others)):
            s = dict(zip(others, bits))
            for a in letter_atoms:
                s[a] = (a == chosen)
            executed = [(k, n, v, e) for (k, n, v, e) in rel if evalf(e.pc, s)]
            if not executed:
                continue
            n_paths += 1
            pre = {f: s[flag_atoms[f]] for f in FLAGS}
            post = dict(pre)
            d_op = d_inv = 0
            in_set = pre['wallops']
            for k, n, v, e in executed:
                if k == 'flag':
                    post[n] = evalf(v, s)
                elif k == 'count':
                    if n == 'operators_count':
                        d_op += v
                    else:
                        d_inv += v
                elif k == 'wset':
                    in_set = (n == 'insert')
            if kind == 'add':
                want_op, want_inv, want_set = int(pre['oper'] or pre['local_oper']), int(pre['invisible']), pre['wallops']
                in_set_final = in_set if any(k == 'wset' for k, _, _, _ in executed) else False
            elif kind == 'remove':
                want_op, want_inv, want_set = -int(pre['oper'] or pre['local_oper']), -int(pre['invisible']), False
                in_set_final = in_set
            else:
                want_op = int(post['oper'] or post['local_oper']) - int(pre['oper'] or pre['local_oper'])
                want_inv = int(post['invisible']) - int(pre['invisible'])
                want_set = post['wallops']
                in_set_final = in_set
            letter = chosen[2][1] if chosen else ''
            sign = ''
            for a, val in s.items():
                if a[0] == 'truth' and a[1][0] == 'mvar':
                    sign = '+' if val else '-'
            tag = (sign + letter) if letter else ''
            if d_op != want_op:
                bad.setdefault(('operators_count', tag), (d_op, want_op, pre, post, executed))
            if d_inv != want_inv:
                bad.setdefault(('invisible_users_count', tag), (d_inv, want_inv, pre, post, executed))
            if in_set_final != want_set:
                bad.setdefault(('wallops_users', tag), (in_set_final, want_set, pre, post, executed))
    rule.instance('%s: %d abstract paths over %d atoms' % (fn_name, n_paths, len(universe)))
    for (what, tag), (got, want, pre, post, executed) in sorted(bad.items()):
        prs = ','.join('%s=%d' % (f, pre[f]) for f in FLAGS)
        pos = ','.join('%s=%d' % (f, post[f]) for f in FLAGS)
        rule.violation('%s|coupling|%s|%s|got=%s,want=%s' % (fn_name, what, tag, got, want), '%s%s: %s changes by %s but the predicate it counts changes by %s '
                       '(before: %s; after: %s)' % (fn_name, (' ' + tag) if tag else '', what, got, want, prs, pos),
                       loc=cx.loc(executed[-1][3].node))
    return n_paths


def check(cx):
    ck = cx.check
    ck.decides += [
        'R19.1 coupling of operators_count / invisible_users_count / wallops_users with the user flags they count, over all abstract paths of add_user, remove_user, process_oper and every letter/sign branch of process_mode_user',
        'R19.2 each LUSERS field is the stated state term',
        'R19.3 ISON/USERHOST output exactly the queried nicknames present in the registry, with * <=> operator and -/+ <=> away',
        'R19.4 connection slots: one fetch_add per attempt, admission compares the previous value with < max_connections, refusal gives the slot back, ConnState (whose Drop returns the slot exactly once) is constructed only on admission, with the shared counter',
        'R19.6 the counting registry functions (add_user / remove_user) are called only by registration and teardown - a re-key of the registry (NICK) must not pass through them',
        'R19.5 max_users_count is raised to users.len() after every registry insert',
    ]
    ck.does_not_decide += ['TLS handshakes in progress (not counted by construction)', 'that LUSERS numbers are read atomically with respect to other handlers (they are: one read guard, C18)']
    prog = cx.prog

    r1 = cx.rule('R19.1', 'counter / set coupling', floor=4, kind='coupling')
    inl = ('is_local_oper',)
    # add_user
    fa = cx.fn('add_user', 'VolatileState')
    wa = cx.walk(fa, args=[STATE, P('unick'), P('user')], inline=inl, key='c19')
    transitions(cx, r1, 'VolatileState::add_user', wa, field(P('user'), 'modes'), P('unick'), 'add', prog, fa)
    ins = [e for e in wa.events if is_call(e, 'insert') and e.data['args'][:1] == [USERS]]
    if len(ins) != 1 or ins[0].data['args'][1:] != [P('unick'), P('user')] or ins[0].pc != T:
        r1.violation('VolatileState::add_user|insert', 'add_user does not unconditionally insert the user under the given nick', loc=fa)
    # remove_user
    fr = cx.fn('remove_user', 'VolatileState')
    wr = cx.walk(fr, args=[STATE, P('nick')], inline=inl, key='c19')
    rem = [e for e in wr.events if is_call(e, 'remove') and e.data['args'][:1] == [USERS]]
    if len(rem) != 1:
        raise AnchorLost('VolatileState::remove_user: registry removal not found')
    removed = ('some_of', ('call', rem[0].data['callee'], USERS, P('nick')))
    transitions(cx, r1, 'VolatileState::remove_user', wr, field(removed, 'modes'), P('nick'), 'remove', prog, fr)
    # OPER
    fo = cx.fn('process_oper')
    wo = cx.walk(fo, args=[SELF, CONN, P('name'), P('password')], inline=inl, key='c19')
    transitions(cx, r1, 'process_oper', wo, field(user(CONN_NICK), 'modes'), CONN_NICK, 'update', prog, fo)
    # user MODE
    fu = cx.fn('process_mode_user')
    TGT = P('target')
    wu = cx.walk(fu, args=cx.callsite_args(cx.fn('process_mode'), [SELF, CONN, TGT, P('modes')], 'process_mode_user'), inline=inl, key='c19')
    transitions(cx, r1, 'process_mode_user', wu, field(user(TGT), 'modes'), TGT, 'update', prog, fu)
    # nobody else writes these
    census = cx_census(cx)
    allowed = {'add_user', 'remove_user', 'process_oper', 'process_mode_user', 'process_nick'}
    for fn, e in census:
        b = short_fn(fn.replace('::{closure#0}', ''))
        tgt = None
        if e.kind in ('assign', 'assignop') and not e.data.get('init'):
            p = path_of(e.data['lhs'])
            if p[-1:] in (['operators_count'], ['invisible_users_count']) or p[-2:] in (['modes', 'invisible'], ['modes', 'wallops'],
                                                                                        ['modes', 'oper'], ['modes', 'local_oper']):
                tgt = '.'.join(p[-2:])
        if e.kind == 'call' and e.data['name'] in MUTATORS and e.data.get('args') and path_of(e.data['args'][0])[-1:] == ['wallops_users']:
            tgt = 'wallops_users'
        if tgt:
            r1.instance('writer %s: %s' % (b, tgt))
            if b not in allowed:
                r1.violation('%s|writes|%s' % (b, tgt), '%s is written in %s, which the coupling analysis does not cover' % (tgt, b),
                             loc=cx.loc(e.node))

    # ---------------------------------------------------------------- R19.6 callers of the counting functions
    from .C02 import rule_registry_callers
    r6 = cx.rule('R19.6', 'callers of the counting registry functions', floor=2, kind='who-may-call')
    rule_registry_callers(cx, r6)

    # ---------------------------------------------------------------- R19.5 high-water mark
    r5 = cx.rule('R19.5', 'max_users_count high-water mark', floor=1, kind='pairing')
    mx = field(STATE, 'max_users_count')
    asg = [e for e in wa.events if e.kind == 'assign' and e.data['lhs'] == mx]
    r5.instance('add_user: if users.len() > max { max = users.len() } after the insert')
    okm = (len(asg) == 1 and asg[0].data['rhs'] == ('len', USERS) and ins and asg[0].seq > ins[0].seq
           and equivalent(asg[0].pc, Atom(('lt', mx, ('len', USERS))))[0])
    if not okm and len(asg) == 1 and ins and asg[0].seq > ins[0].seq and asg[0].pc == T:
        # the other idiom: max = max(max, users.len()) unconditionally
        rhs = asg[0].data['rhs']
        okm = isinstance(rhs, tuple) and rhs[0] == 'call' and rhs[1].split('::')[-1] == 'max' and set(rhs[2:]) == {mx, ('len', USERS)}
    if not okm:
        r5.violation('VolatileState::add_user|high-water', 'the maximum user count is not raised to users.len() after the insert', loc=fa)
    for fn, e in census:
        if e.kind in ('assign', 'assignop') and not e.data.get('init') and path_of(e.data['lhs'])[-1:] == ['max_users_count']:
            if short_fn(fn) != 'add_user':
                r5.violation('%s|writes-max' % short_fn(fn), 'max_users_count is written outside add_user', loc=cx.loc(e.node))

    # ---------------------------------------------------------------- R19.2 LUSERS
    r2 = cx.rule('R19.2', 'LUSERS field provenance', floor=6, kind='provenance')
    fl = cx.fn('process_lusers')
    wl = cx.walk(fl, args=[SELF, CONN])
    inv = field(STATE, 'invisible_users_count')
    want = {
        'RplLUserClient251': {'users_num': ('sub', ('len', USERS), inv), 'inv_users_num': inv},
        'RplLUserOp252': {'ops_num': field(STATE, 'operators_count')},
        'RplLUserChannels254': {'channels_num': ('len', CHANNELS)},
        'RplLUserMe255': {'clients_num': ('len', USERS)},
        'RplLocalUsers265': {'clients_num': ('len', USERS), 'max_clients_num': mx},
        'RplGlobalUsers266': {'clients_num': ('len', USERS), 'max_clients_num': mx},
    }
    got = {r['variant']: (e, r['fields']) for e, r in replies(wl)}
    for v, fields in want.items():
        r2.instance('%s fields' % v)
        if v not in got:
            r2.violation('process_lusers|missing|%s' % v, 'LUSERS does not send %s' % v, loc=fl)
            continue
        e, f = got[v]
        for k, t in fields.items():
            if f.get(k) != t:
                r2.violation('process_lusers|%s.%s' % (v, k), 'LUSERS %s.%s is %s, expected %s' % (v, k, show_term(f.get(k)), show_term(t)),
                             loc=cx.loc(e.node))
        if e.pc != T or not any(g[0] == 'read' or g[0] == 'write' for g in e.guards):
            r2.violation('process_lusers|%s-guard' % v, '%s is conditional or computed outside the state guard' % v, loc=cx.loc(e.node))

    # the number of channels LUSERS reports is the size of the channel map: it is true only if emptied channels are deleted
    r2.instance('channel count: emptied channels are deleted, by every way of leaving (C16 R16.2)')
    depends(cx, r2, 'C16', ('R16.2',), 'a channel ceases to exist with its last member', only=r'^(?!.*\|other-effect)(.*remove_user_from_channel|.*calls\|remove_user|.*deletion)')

    # the number of users LUSERS reports (and the nicks ISON / USERHOST find) is the registry: it is true only if every registered
    # connection is taken out of it when it ends - the teardown is gated by `authenticated`, which must stay set once registered
    r2.instance('user count: every registered connection leaves the registry when it ends (C03 R3.3/R3.6, C06 R6.1/R6.2)')
    depends(cx, r2, 'C03', ('R3.3', 'R3.6'), 'a registered connection stays marked as such, so its disconnect takes it out of the registry',
            only=r'writes-authenticated|authenticate-reentry')
    depends(cx, r2, 'C06', ('R6.1', 'R6.2'), 'every way a session ends reaches the teardown')
    # ... and nobody else is: a session that ends removes the user it registered, not one that merely carries the nick it asked for
    depends(cx, r2, 'C02', ('R2.6',), 'a user is taken out of the registry only by the session that registered it', only=r'unowned-nick-effect')

    # ---------------------------------------------------------------- R19.3 ISON / USERHOST
    r3 = cx.rule('R19.3', 'ISON / USERHOST', floor=2, kind='provenance')
    fi = cx.fn('process_ison')
    NN = P('nicknames')
    wi = cx.walk(fi, args=[SELF, CONN, NN], key='c19')
    r3.instance('ISON: queried names filtered by registry presence')
    okison = False
    for e, r in replies(wi):
        if r['variant'] == 'RplIson303':
            outs = r['fields'].get('nicknames')
            if isinstance(outs, tuple) and outs[0] == 'mapped':
                el, facts = outs[2], outs[3]
                okison = mentions(el, NN) and equivalent(facts, has(USERS, el))[0]
            elif isinstance(outs, tuple) and outs[0] == 'local':
                # the same filter written as a loop pushing into a vector
                pushes = [x for x in wi.events if x.kind == 'local_mut' and x.data['local'] == outs and x.data['method'] in ('push', 'insert', 'extend')]
                if len(pushes) == 1 and pushes[0].data['method'] == 'push':
                    el = pushes[0].data['args'][0]
                    # condition of the push relative to the condition of the reply (loop facts aside)
                    extra = [a for a in atoms(pushes[0].pc) if a not in atoms(e.pc)]
                    okison = mentions(el, NN) and len(extra) == 1 and extra[0] == has(USERS, el)[1] and \
                        entails(pushes[0].pc, has(USERS, el))[0]
    if not okison:
        r3.violation('process_ison|filter', 'ISON does not list exactly the queried nicknames that are in the registry', loc=fi)
    fh = cx.fn('process_userhost')
    wh = cx.walk(fh, args=[SELF, CONN, NN], inline=inl, key='c19')
    r3.instance('USERHOST: present names, * <=> operator, -/+ <=> away')
    okuh = False
    for e in wh.events:
        if e.kind == 'format' and len(e.data['args']) == 5:
            nick, ast, away = e.data['args'][0], e.data['args'][1], e.data['args'][2]
            if not mentions(nick, NN):
                continue
            u = ('idx', USERS, nick)
            def choice(t, cond, yes, no):
                # t is `yes` exactly when cond holds and `no` otherwise, however the choice is written (if/else, match, negated test)
                cs = [(c_, l_) for c_, l_ in term_cases(t) if sat(And(e.pc, c_)) is not None]
                return len(cs) >= 2 and all((l_ == yes and entails(And(e.pc, c_), cond)[0]) or (l_ == no and entails(And(e.pc, c_), Not(cond))[0])
                                            for c_, l_ in cs)
            c1 = choice(ast, Or(flag(field(u, 'modes', 'local_oper')), flag(field(u, 'modes', 'oper'))), ('lit', '*'), ('lit', ''))
            c2 = choice(away, is_some(field(u, 'away')), ('lit', '-'), ('lit', '+'))
            c3 = entails(e.pc, has(USERS, nick))[0]
            okuh = c1 and c2 and c3 and e.data['args'][3] == field(u, 'name') and e.data['args'][4] == field(u, 'hostname')
    if not okuh:
        r3.violation('process_userhost|fields', 'USERHOST entries are not "<nick>[*]=<-|+>~<user>@<host>" of registered queried nicks with '
                     '* for operators and - for away users', loc=fh)

    # ---------------------------------------------------------------- R19.4 connection slots
    r4 = cx.rule('R19.4', 'connection slot acquire/release pairing', floor=5, kind='pairing')
    fg = cx.fn('register_conn_state')
    wg = cx.walk(fg, args=[SELF, P('ip_addr'), P('stream')], key='c19')
    cnt = field(SELF, 'conns_count')
    mxc = field(CONFIG, 'max_connections')
    adds = [e for e in wg.events if is_call(e, 'fetch_add') and e.data['args'][0] == cnt and e.data['args'][1] == ('lit', 1)]
    subs = [e for e in wg.events if is_call(e, 'fetch_sub') and e.data['args'][0] == cnt and e.data['args'][1] == ('lit', 1)]
    news = [e for e in wg.events if e.kind == 'call' and e.data.get('local') and e.data['callee'].endswith('ConnState::new')]
    r4.instance('one fetch_add on every path')
    if not adds or not equivalent(Or(*[e.pc for e in adds]), T)[0] or any(sat(And(a.pc, b.pc)) is not None for a in adds for b in adds if a is not b):
        r4.violation('register_conn_state|acquire', 'not exactly one slot is taken per connection attempt', loc=fg)
    limited = is_some(mxc)
    prev = None
    for e in adds:
        # the value returned by the increment (whether it sits in the limited branch only or is hoisted above the branch)
        if sat(And(e.pc, limited)) is not None:
            prev = ('call', e.data['callee']) + tuple(e.data['args'])
    admit = Atom(('lt', prev, ('some_of', mxc))) if prev else F
    r4.instance('admission: previous count < max_connections')
    okn = news and equivalent(Or(*[e.pc for e in news]), Or(Not(limited), And(limited, admit)))[0]
    if not okn:
        r4.violation('register_conn_state|admission', 'a connection is admitted under a condition other than (no limit || previous count < '
                     'max_connections)', loc=fg)
    r4.instance('refusal returns the slot')
    oks = subs and equivalent(Or(*[e.pc for e in subs]), And(limited, Not(admit)))[0]
    if not oks:
        r4.violation('register_conn_state|refusal-release', 'a refused connection does not give its slot back exactly once', loc=fg)
    r4.instance('ConnState gets the shared counter; constructed only here')
    for e in news:
        if e.data['args'][2] != cnt:
            r4.violation('register_conn_state|counter-identity', 'the connection state is given a different counter than the one incremented',
                         loc=cx.loc(e.node))
    for fn, e in census:
        if e.kind == 'call' and e.data.get('local') and e.data['callee'].endswith('ConnState::new') and short_fn(fn) != 'register_conn_state':
            r4.violation('%s|constructs-ConnState' % short_fn(fn), 'a ConnState is constructed outside register_conn_state (its Drop would '
                         'release a slot that was never taken)', loc=cx.loc(e.node))
        if e.kind == 'adt' and e.data['adt'].endswith('structs::ConnState') and short_fn(fn) != 'new':
            r4.violation('%s|ConnState-literal' % short_fn(fn), 'a ConnState literal outside ConnState::new', loc=cx.loc(e.node))
    fd = cx.fn('drop', 'ConnState as std::ops::Drop')
    wd = cx.walk(fd, args=[P('self')])
    ds = [e for e in wd.events if is_call(e, 'fetch_sub')]
    r4.instance('Drop for ConnState releases exactly one slot of its counter')
    if len(ds) != 1 or ds[0].pc != T or ds[0].data['args'][0] != field(P('self'), 'conns_count') or ds[0].data['args'][1] != ('lit', 1):
        r4.violation('ConnState::drop|release', 'dropping a connection state does not release exactly one slot of its own counter', loc=fd)
    fcn = cx.fn('new', 'structs::ConnState')
    wcn = cx.walk(fcn, args=[P('ip_addr'), P('stream'), P('conns_count')])
    lit_ = [e for e in wcn.events if e.kind == 'adt' and e.data['adt'].endswith('structs::ConnState')]
    if len(lit_) != 1 or lit_[0].data['fields'].get('conns_count') != P('conns_count'):
        r4.violation('ConnState::new|counter-field', 'ConnState::new does not store the counter it was given', loc=fcn)
