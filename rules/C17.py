"""C17 — Keep-alive drops dead peers and keeps live ones (wiring only).

Timing bounds are runtime quantities and are not decided.  Decided are the necessary wiring
conditions: PONG echoes the token, the ping waker is armed on every successful registration
with the ping interval, every server PING arms a pong deadline with the pong interval, the
deadline arm ends the session, PONG fires the pending notifier, and a pending deadline is
never silently cancelled.
"""
from .common import *  # noqa: F401,F403
from .C01 import select_arms
from .C03 import cx_census


def P(n):
    return ('param', n)


def _only(t, want, pc=T):
    """the value is `want` on every path that yields a value (a diverging branch - panic!, return - yields none)"""
    leaves = [l for c_, l in term_cases(t) if l[:1] != ('never',) and sat(And(pc, c_)) is not None]
    return bool(leaves) and all(l == want for l in leaves)


def check(cx):
    ck = cx.check
    ck.decides += [
        'R17.1 PING is answered with "PONG <server> :<same token>"',
        'R17.2 on the success path of authenticate() the ping waker is started (after add_user) with Duration::from_secs(config.ping_timeout); it sleeps one interval, then ticks and signals while the session is alive',
        'R17.3 the ping arm sends PING and arms a pong deadline of config.pong_timeout; the deadline arm sends ERROR and sets the quit flag; the deadline task signals only on expiry and only while the session is alive',
        'R17.4 PONG (any token) fires the pending notifier',
        'R17.5 a pending deadline is never silently cancelled: the notifier slot is only filled when empty, or a dropped notifier counts as a timeout',
    ]
    ck.does_not_decide += ['"no later than pong_timeout plus slack" and "never disconnected while answering" as timing facts', 'scheduler fairness']
    prog = cx.prog
    SELF_ = P('self')
    CFG = P('config')

    r1 = cx.rule('R17.1', 'PONG echoes the token', floor=1, kind='provenance')
    fp = cx.fn('process_ping')
    wp = cx.walk(fp, args=[SELF, CONN, P('token')])
    reps = replies(wp)
    r1.instance('process_ping reply')
    ok = len(reps) == 1 and reps[0][0].pc == T and reps[0][1]['text'] == ('fmt', ('PONG ', ('arg', 0), ' :', ('arg', 1)), field(CONFIG, 'name'), P('token'))
    if not ok:
        r1.violation('process_ping|echo', 'PING is not answered unconditionally with "PONG <server name> :<token>" carrying the same token', loc=fp)

    r2 = cx.rule('R17.2', 'ping waker armed on registration', floor=3, kind='wiring')
    fa = cx.fn('authenticate')
    wa = cx.walk(fa, args=[SELF, CONN], key='c02')
    adds = [e for e in wa.events if is_call(e, 'add_user') and e.data.get('local')]
    wk = [e for e in wa.events if is_call(e, 'run_ping_waker') and e.data.get('local')]
    r2.instance('authenticate: run_ping_waker after add_user on the success path')
    if len(wk) != 1 or not adds or wk[0].seq < adds[0].seq or wk[0].data['args'] != [CONN, CONFIG]:
        r2.violation('authenticate|no-ping-waker', 'a successful registration does not start the keep-alive waker (with the server configuration)', loc=fa)
    else:
        # reached on every path where the user was added (modulo `?` on reply feeding)
        if not entails(adds[0].pc, wk[0].pc)[0]:
            r2.violation('authenticate|ping-waker-conditional', 'the keep-alive waker is not started for every registered connection', loc=cx.loc(wk[0].node))
    fw = cx.fn('run_ping_waker')
    ww = cx.walk(fw, args=[SELF_, CFG])
    sp = [e for e in ww.events if is_call(e, 'ping_client_waker')]
    r2.instance('run_ping_waker: interval = config.ping_timeout, shares the quit flag, owns the ping sender')
    dur = lambda f: ('call', 'std::time::Duration::from_secs', field(CFG, f))
    okw = len(sp) == 1 and sp[0].data['args'][0] == dur('ping_timeout') and sp[0].data['args'][1] == field(SELF_, 'quit') and \
        _only(sp[0].data['args'][2], ('some_of', field(SELF_, 'ping_sender')), sp[0].pc) and any(is_call(e, 'spawn') and e.data['args'][0][0] == 'call' and
                                                                                  e.data['args'][0][1].endswith('ping_client_waker') for e in ww.events)
    if not okw:
        r2.violation('run_ping_waker|arguments', 'the ping waker is not spawned with (Duration::from_secs(ping_timeout), the session\'s quit flag, '
                     'the ping sender)', loc=fw, found=[show_term(a) for a in sp[0].data['args']] if sp else None)
    fpw = cx.fn('ping_client_waker')
    wpw = cx.walk(fpw, args=[P('d'), P('quit'), P('sender')])
    r2.instance('ping_client_waker: sleep(d); interval(d); while alive { tick; send }')
    alive = sym.mk_eq(('call', 'std::sync::atomic::AtomicI32::load', P('quit'), ('adt', 'std::sync::atomic::Ordering', 'SeqCst', ())), ('lit', 0))
    sl = [e for e in wpw.events if is_call(e, 'sleep') and e.data['args'][:1] == [P('d')] and e.pc == T]
    iv = [e for e in wpw.events if is_call(e, 'interval') and e.data['args'][:1] == [P('d')]]
    sn = [e for e in wpw.events if is_call(e, 'send') and e.data['args'][0] == P('sender')]
    tk = [e for e in wpw.events if is_call(e, 'tick')]
    okp = len(sl) == 1 and len(iv) == 1 and len(sn) == 1 and len(tk) == 1 and sn[0].loops and tk[0].loops and tk[0].seq < sn[0].seq \
        and len(atoms(sn[0].pc)) == 1 and 'load' in repr(sn[0].pc) and "('lit', 0)" in repr(sn[0].pc)
    if not okp:
        r2.violation('ping_client_waker|shape', 'the ping waker does not signal once per interval while the session is alive', loc=fpw)

    r3 = cx.rule('R17.3', 'PING arm arms the pong deadline; deadline ends the session', floor=4, kind='wiring')
    pi = cx.fn('process_internal')
    wi = cx.walk(pi)
    arms = select_arms(prog, pi)

    def tag(desc):
        try:
            return '_%d' % arms.index(desc)
        except ValueError:
            raise AnchorLost('select arm %s not found' % desc)

    def in_arm(e, t):
        return any(c[0] == 'a' and c[1][0] == 'is' and c[1][2] == t for c in conjuncts(e.pc))
    tp = tag('conn_state.ping_receiver.recv()')
    pings = [(e, r) for e, r in replies(wi) if in_arm(e, tp) and r['text'][0] == 'lit' and str(r['text'][1]).startswith('PING ')]
    arm_calls = [e for e in wi.events if in_arm(e, tp) and is_call(e, 'run_pong_timeout') and e.data['args'] == [CONN, CONFIG]]
    r3.instance('ping arm: PING line and run_pong_timeout(config)')
    if len(pings) != 1 or len(arm_calls) != 1 or [a for a in atoms(arm_calls[0].pc) if 'poll_fn' not in repr(a)] or \
            [a for a in atoms(pings[0][0].pc) if 'poll_fn' not in repr(a)]:
        r3.violation('process_internal|ping-arm', 'the ping arm does not (unconditionally) send PING and arm the pong deadline', loc=pi)
    fr = cx.fn('run_pong_timeout')
    wr = cx.walk(fr, args=[SELF_, CFG])
    tmo = [e for e in wr.events if is_call(e, 'timeout')]
    pct = [e for e in wr.events if is_call(e, 'pong_client_timeout')]
    r3.instance('run_pong_timeout: deadline = config.pong_timeout on the receiver paired with the stored notifier')
    chan_ = None
    for e in wr.events:
        if is_call(e, 'channel'):
            chan_ = ('call', e.data['callee'])
    asg = [e for e in wr.events if e.kind == 'assign' and e.data['lhs'] == field(SELF_, 'pong_notifier')]
    okr = (len(tmo) == 1 and chan_ and tmo[0].data['args'] == [dur('pong_timeout'), sym.proj(chan_, 1)] and len(pct) == 1
           and pct[0].data['args'][1:] == [field(SELF_, 'quit'), field(SELF_, 'timeout_sender')]
           and len(asg) == 1 and asg[0].data['rhs'] == ('some', sym.proj(chan_, 0)))
    if not okr:
        r3.violation('run_pong_timeout|arguments', 'the pong deadline is not timeout(Duration::from_secs(pong_timeout), receiver of the stored '
                     'notifier) reporting to this session\'s timeout queue', loc=fr)
    fpc = cx.fn('pong_client_timeout')
    wpc = cx.walk(fpc, args=[P('tmo'), P('quit'), P('sender')])
    sn = [e for e in wpc.events if is_call(e, 'send') and e.data['args'][0] == P('sender')]
    r3.instance('pong_client_timeout: signal iff the deadline expired and the session is alive')
    expired = Not(Atom(('is', P('tmo'), 'Ok')))
    okc = len(sn) == 1 and entails(sn[0].pc, expired)[0] and 'load' in repr(sn[0].pc) and len(atoms(sn[0].pc)) == 2
    if not okc:
        r3.violation('pong_client_timeout|shape', 'the deadline task does not signal exactly when the deadline expired while the session is alive',
                     loc=fpc)
    tt = tag('conn_state.timeout_receiver.recv()')
    errs = [(e, r) for e, r in replies(wi) if in_arm(e, tt) and r['text'][0] == 'lit' and str(r['text'][1]).startswith('ERROR')]
    r3.instance('timeout arm: ERROR line (quit flag: C06 R6.2)')
    if len(errs) != 1:
        r3.violation('process_internal|timeout-arm', 'a pong timeout is not reported to the client with an ERROR line', loc=pi)

    r4 = cx.rule('R17.4', 'PONG fires the pending notifier', floor=1, kind='wiring')
    fpo = cx.fn('process_pong')
    wpo = cx.walk(fpo, args=[SELF, CONN, P('token')])
    nf = field(CONN, 'pong_notifier')
    sd = [e for e in wpo.events if is_call(e, 'send') and e.data['args'][0] == ('some_of', nf)]
    tk = [e for e in wpo.events if is_call(e, 'take') and e.data['args'][0] == nf and e.pc == T]
    r4.instance('process_pong: take() the notifier and send')
    if len(sd) != 1 or len(tk) != 1 or not equivalent(sd[0].pc, is_some(nf))[0]:
        r4.violation('process_pong|notifier', 'PONG does not fire the pending pong notifier (whatever its token)', loc=fpo)

    # a registered connection stays marked as registered: otherwise its PING is answered 451 and its PONG never reaches process_pong
    r6 = cx.rule('R17.6', 'a live registered connection keeps passing the registration gate (imported)', floor=1, kind='dependency')
    depends(cx, r6, 'C03', ('R3.3', 'R3.6'), 'a registered connection stays marked as such, so its PING / PONG are processed',
            only=r'writes-authenticated|authenticate-reentry')

    r5 = cx.rule('R17.5', 'a pending deadline is never silently cancelled', floor=1, kind='typestate')
    census = cx_census(cx)
    # only a PONG from the client counts as the answer: process_pong has exactly one caller, the dispatch arm of the PONG command
    pcallers = [(fn, e) for fn, e in census if e.kind == 'call' and e.data.get('local') and e.data['callee'].endswith('::process_pong')]
    r5.instance('process_pong callers: %s' % ','.join(short_fn(fn.replace('::{closure#0}', '')) for fn, e in pcallers))
    for fn, e in pcallers:
        b = short_fn(fn.replace('::{closure#0}', ''))
        is_dispatch = b == 'process_internal' and any(a[0] == 'is' and a[2] == 'PONG' for a in atoms(e.pc))
        if not is_dispatch:
            r5.violation('%s|fires-notifier-without-PONG' % b, '%s calls process_pong: something other than a PONG from the client cancels the '
                         'pending pong deadline' % b, loc=cx.loc(e.node))
    if not pcallers:
        r5.violation('nobody|calls-process_pong', 'PONG is never processed', loc=fpo)
    writes = [(fn, e) for fn, e in census if e.kind == 'assign' and not e.data.get('init') and path_of(e.data['lhs'])[-1:] == ['pong_notifier']
              and e.data['rhs'][0] == 'some']
    closed_counts = False
    # alternative defence: the deadline task treats a closed notifier channel like an expiry
    for e in wpc.events:
        if is_call(e, 'send') and e.data['args'][0] == P('sender'):
            if sat(And(e.pc, Atom(('is', P('tmo'), 'Ok')))) is not None:
                closed_counts = True
    for fn, e in writes:
        slot = e.data['lhs']
        r5.instance('%s: pong_notifier = Some(..)' % short_fn(fn))
        guarded = entails(e.pc, Not(is_some(slot)))[0]
        w = cx.walk(fn, key='census')
        if not (guarded or closed_counts):
            r5.violation('%s|overwrites-pending-notifier' % short_fn(fn), 'the pong notifier slot is overwritten while a deadline may be pending: '
                         'the dropped sender makes the old deadline task finish as if PONG had arrived, so with pong_timeout >= ping_timeout a '
                         'silent client is never disconnected', loc=cx.loc(e.node))
    if not writes:
        r5.violation('nobody|arms-notifier', 'no pong notifier is ever stored', loc=fr)
    # the slot is emptied only by PONG (which fires the notifier): taking it anywhere else drops the sender, and a dropped sender ends
    # the deadline task as if PONG had arrived
    for fn, e in census:
        b = short_fn(fn.replace('::{closure#0}', ''))
        emptied = (is_call(e, 'take') and e.data.get('args') and path_of(e.data['args'][0])[-1:] == ['pong_notifier']) or \
                  (e.kind == 'assign' and not e.data.get('init') and path_of(e.data['lhs'])[-1:] == ['pong_notifier'] and e.data['rhs'][0] != 'some')
        if emptied:
            r5.instance('%s empties the notifier slot' % b)
            if b != 'process_pong' and not closed_counts:
                r5.violation('%s|drops-pending-notifier' % b, '%s takes the pending pong notifier out of its slot without firing it on behalf of '
                             'a PONG: the deadline of the unanswered PING is cancelled and a silent client is never disconnected' % b,
                             loc=cx.loc(e.node))
