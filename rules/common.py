"""Shared vocabulary for the rule files: canonical terms of this code base, event
classification (replies, cross-user sends, state effects) and small query helpers."""
from analysis import ir, sym
from analysis.formula import T, F, And, Or, Not, Atom, entails, equivalent, show, show_term, atoms, sat, conjuncts, subst, rename
from analysis.report import AnchorLost

CONN = ('param', 'conn_state')
USTATE = ('field', CONN, 'user_state')
NICK_OPT = ('field', USTATE, 'nick')
CONN_NICK = ('some_of', NICK_OPT)
CONN_SOURCE = ('field', USTATE, 'source')
CONN_AUTH = ('flag', ('field', USTATE, 'authenticated'))
STATE = ('state',)
USERS = ('field', STATE, 'users')
CHANNELS = ('field', STATE, 'channels')
SELF = ('param', 'self')
CONFIG = ('field', SELF, 'config')

MUTATORS = {'insert', 'remove', 'push', 'clear', 'take', 'retain', 'extend', 'drain', 'push_str', 'entry',
            'pop', 'truncate', 'replace', 'append', 'remove_entry', 'swap_remove', 'sort', 'dedup',
            'get_or_insert_with', 'get_or_insert', 'get_or_insert_default', 'insert_to_nick_history'}
# Option methods that leave the place `Some(..)` (the write-back half of take()/modify/Some(..))
ENSURE_SOME = ('get_or_insert_with', 'get_or_insert', 'get_or_insert_default')


def has(m, k):
    return Atom(('is', ('get', m, k), 'Some'))


def chan(c):
    return ('idx', CHANNELS, c)


def user(n):
    return ('idx', USERS, n)


def field(t, *names):
    for n in names:
        t = ('field', t, n)
    return t


def flag(t):
    return Atom(('flag', t))


def is_some(t):
    return Atom(('is', t, 'Some'))


def root_of(t):
    """the base object a place/term is rooted in"""
    while isinstance(t, tuple) and t:
        h = t[0]
        if h in ('field', 'idx', 'get', 'some_of', 'index', 'values', 'keys', 'elem', 'vfield', 'len', 'hashmap',
                 'err_of', 'ver'):
            t = t[1]
        elif h == 'ite':
            t = t[2]
        else:
            break
    return t


def path_of(t):
    """field path (list of names / '[]') from the root to t"""
    out = []
    while isinstance(t, tuple) and t:
        h = t[0]
        if h == 'field':
            out.append(t[2])
            t = t[1]
        elif h in ('idx', 'get', 'index'):
            out.append('[]')
            t = t[1]
        elif h in ('some_of', 'values', 'keys', 'elem', 'hashmap', 'ver'):
            t = t[1]
        elif h == 'ite':
            t = t[2]
        else:
            break
    return list(reversed(out))


def mentions(t, sub):
    """does term/formula t contain sub as a sub-term?"""
    if t == sub:
        return True
    if isinstance(t, tuple):
        return any(mentions(x, sub) for x in t)
    if isinstance(t, (list, dict)):
        vals = t.values() if isinstance(t, dict) else t
        return any(mentions(x, sub) for x in vals)
    return False


def subterms(t):
    yield t
    if isinstance(t, tuple):
        for x in t:
            for y in subterms(x):
                yield y


class Cx:
    """per-check context: programs per build configuration, memoised walks, rule registry"""

    def __init__(self, check, progs):
        self.check = check
        self.progs = progs
        self.prog = progs['default'] if 'default' in progs else list(progs.values())[0]
        self._walks = {}

    # ---- lookup
    def fn(self, name, hint=None, prog=None, closure=False):
        prog = prog or self.prog
        cands = []
        for d, b in prog.bodies.items():
            if not closure and '{closure' in d:
                continue
            if d == name or d.endswith('::' + name):
                if hint is None or hint in d:
                    cands.append(d)
        if len(cands) == 1:
            return cands[0]
        if len(cands) > 1 and hint:
            # the hint names a type / module: prefer the candidate in which it is a whole path segment directly before the name,
            # then the functions that existed when the rules were written
            exact = [d for d in cands if d.endswith('::' + hint.split('::')[-1] + '::' + name) or (hint + '::' + name) in d and
                     d.endswith(hint.split('::')[-1] + '::' + name)]
            if len(exact) == 1:
                return exact[0]
            from analysis.sym import _known_fns
            kf = _known_fns()
            known = [d for d in (exact or cands) if d in kf]
            if len(known) == 1:
                return known[0]
        elif len(cands) > 1:
            from analysis.sym import _known_fns
            kf = _known_fns()
            known = [d for d in cands if d in kf]
            if len(known) == 1:
                return known[0]
        if not cands:
            raise AnchorLost('function %s%s not found' % (name, ' (%s)' % hint if hint else ''))
        raise AnchorLost('function %s is ambiguous: %s' % (name, cands))

    def has_fn(self, name, hint=None, prog=None):
        try:
            self.fn(name, hint, prog)
            return True
        except AnchorLost:
            return False

    def walk(self, fn_path, inline=(), prog=None, args=None, key=None, max_depth=3):
        prog = prog or self.prog
        k = (id(prog), fn_path, tuple(sorted(inline)), key)
        if k not in self._walks:
            w, val = sym.analyse(prog, fn_path, inline=inline, args=args, max_depth=max_depth)
            w.retval = val
            self._walks[k] = w
            self.check.analysed(fn_path)
        return self._walks[k]

    def loc(self, node, prog=None):
        return (prog or self.prog).loc(node)

    def callsite_args(self, caller, caller_args, callee_name, prog=None, key='callsite'):
        """the argument terms a helper is given at its only call site in `caller`: rules about the helper's body are written in
           the caller's coordinates ($state.., $target), whatever the helper's own parameter list looks like (a refactoring that
           passes `&mut state.users[target]`, `&mut state.operators_count` .. instead of `&mut state` changes nothing)"""
        w = self.walk(caller, args=caller_args, prog=prog, key=key)
        calls = [e for e in w.events if e.kind == 'call' and e.data.get('local') and e.data['name'] == callee_name]
        if len(calls) != 1:
            raise AnchorLost('%s: expected exactly one call of %s, found %d' % (caller, callee_name, len(calls)))
        return list(calls[0].data['args'])

    def rule(self, *a, **kw):
        return self.check.rule(*a, **kw)


# ------------------------------------------------------------------ event classification
def is_call(e, *names):
    return e.kind == 'call' and (not names or e.data.get('name') in names)


def reply_of(e):
    """if e is a sender-directed reply (feed_msg / feed_msg_source), return a description
       {'variant': <Reply variant or None>, 'fields': {...}, 'text': term, 'source': term|None}"""
    if e.kind != 'call' or not e.data.get('local'):
        return None
    nm = e.data.get('name')
    if nm not in ('feed_msg', 'feed_msg_source'):
        return None
    args = e.data['args']
    payload = args[-1]
    src = args[2] if nm == 'feed_msg_source' and len(args) >= 4 else None
    d = {'variant': None, 'fields': {}, 'text': payload, 'source': src, 'stream': args[1] if len(args) > 1 else None}
    if isinstance(payload, tuple) and payload and payload[0] == 'adt' and payload[1].endswith('Reply'):
        d['variant'] = payload[2]
        d['fields'] = dict(payload[3])
    return d


class VirtualEvent:
    """an event seen under one case of a conditional value it carries (or through one source of a merged collection)"""
    def __init__(self, ev, pc):
        self.ev = ev
        self.pc = pc
        self.node = ev.node
        self.loops = ev.loops
        self.seq = ev.seq
        self.guards = ev.guards
        self.kind = ev.kind
        self.data = ev.data
        self.fn = ev.fn


def _reply_from_payload(e, payload, src, stream):
    d = {'variant': None, 'fields': {}, 'text': payload, 'source': src, 'stream': stream}
    if isinstance(payload, tuple) and payload and payload[0] == 'adt' and payload[1].endswith('Reply'):
        d['variant'] = payload[2]
        d['fields'] = dict(payload[3])
    return d


def replies(w, fn_filter=None):
    """sender-directed replies; a reply whose payload is chosen by a conditional expression (`let text = match e {..}; feed_msg(text)`)
       counts as one reply per case, each under its own path condition"""
    out = []
    for e in w.events:
        r = reply_of(e)
        if r is None:
            continue
        cs = term_cases(r['text']) if isinstance(r['text'], tuple) and r['text'][:1] == ('ite',) else None
        if not cs:
            out.append((e, r))
            continue
        for c_, leaf in cs:
            if sat(And(e.pc, c_)) is not None:
                out.append((VirtualEvent(e, And(e.pc, c_)), _reply_from_payload(e, leaf, r['source'], r['stream'])))
    return out


def send_of(e):
    """cross-user send: User::send_msg_display / User::send_message / <x>.sender.send(..)
       returns {'to': receiver user term, 'source': term, 'payload': term, 'how': name}"""
    if e.kind != 'call':
        return None
    nm = e.data.get('name')
    args = e.data.get('args') or []
    if e.data.get('local') and nm in ('send_msg_display', 'send_message') and len(args) >= 3:
        if nm == 'send_msg_display':
            return {'to': args[0], 'source': args[1], 'payload': args[2], 'how': nm}
        return {'to': args[0], 'source': args[2], 'payload': args[1], 'how': nm}
    if nm == 'send' and args and 'UnboundedSender' in (e.data.get('recv_ty') or ''):
        recv = args[0]
        if isinstance(recv, tuple) and recv[0] == 'field' and recv[2] == 'sender':
            return {'to': recv[1], 'source': None, 'payload': args[1] if len(args) > 1 else None, 'how': 'sender.send'}
    return None


def sends(w):
    out = []
    for e in w.events:
        s = send_of(e)
        if s is not None:
            out.append((e, s))
    return out


def local_mut_self(prog, path):
    """is `path` a crate-local method taking &mut self (or a &mut first parameter)?"""
    b = prog.bodies.get(path)
    if not b:
        return False
    ps = b.get('params') or []
    if not ps:
        return False
    ty = prog.types[ps[0]['ty']]
    return ty.startswith('&mut ') or ty.startswith("&'") and ' mut ' in ty.split(' ', 2)[1:2]


def effect_of(e, prog, roots=(STATE,)):
    """state effect description or None.
       {'place': term, 'op': 'assign'|'assignop'|method name, 'value': term|None, 'args': [...]}"""
    if e.kind in ('assign', 'assignop'):
        lhs = e.data['lhs']
        if e.data.get('init'):
            return None
        r = root_of(lhs)
        if r in roots:
            return {'place': lhs, 'op': e.kind if e.kind == 'assign' else e.data['op'], 'value': e.data.get('rhs'),
                    'args': []}
        return None
    if e.kind == 'call':
        nm = e.data.get('name')
        args = e.data.get('args') or []
        if not args:
            return None
        recv = args[0]
        r = root_of(recv)
        if r not in roots:
            return None
        if e.data.get('local'):
            if e.data.get('inlined'):
                from analysis.sym import _known_fns
                kf = _known_fns()
                if kf and e.data['callee'] not in kf:
                    return None     # a helper the rules do not know was looked through: its own effects are in the event list
            if local_mut_self(prog, e.data['callee']):
                return {'place': recv, 'op': nm, 'value': None, 'args': args[1:]}
            return None
        if nm in MUTATORS and _recv_mut(e, prog):
            return {'place': recv, 'op': nm, 'value': None, 'args': args[1:]}
    return None


def _recv_mut(e, prog):
    n = e.node
    if n.get('k') != 'Call' or not n['args']:
        return True
    a0 = n['args'][0]
    ty = prog.ty(a0)
    # receiver expression is `&mut X` (auto-ref) for mutating std methods
    return ty.startswith('&mut ') or (a0.get('k') == 'Borrow' and a0.get('mut'))


def effects(w, prog, roots=(STATE,)):
    out = []
    for e in w.events:
        x = effect_of(e, prog, roots)
        if x is not None:
            out.append((e, x))
    return out


def ev_key(e, what):
    """stable violation key: function + description, no line numbers"""
    return '%s|%s' % (e.fn.replace('state::', '').replace('<impl MainState>::', ''), what)


def short_fn(path):
    return path.split('::')[-1] if '{closure' not in path else path.split('::')[-2] + '::{closure}'


def prove(pc, goal, axioms=T):
    ok, model = entails(pc, goal, axioms)
    return ok, model


def model_str(m):
    if not m:
        return ''
    parts = []
    for a, v in m.items():
        parts.append(('' if v else '!') + show_term(a))
    return ', '.join(sorted(parts)[:12])


def guard_summary(pc):
    """stable, short rendering of the connection/state related conjuncts of a path condition (used in
       violation keys so that a *different* guard on the same site is a different finding)"""
    keep = []
    for c in conjuncts(pc):
        at = atoms(c)
        if at and all((mentions(a, CONN) or mentions(a, STATE)) and 'poll_fn' not in repr(a) for a in at):
            keep.append(show(c))
    return ' && '.join(sorted(keep)) or 'true'


_DEP_DEPTH = [0]
_DEP_CACHE = {}


def depends(cx, rule, prop, rule_ids, name, prog=None, only=None):
    """import the verdict of other properties' rules that establish a fact this property relies on.
       Returns the list of imported violations (already reported on `rule` under the key `<name>|broken|<keys>`).
       Imports are one level deep: a check that runs as a dependency does not import in turn (its own imported rules
       are the business of the property that owns them), which also breaks import cycles."""
    import importlib
    from analysis import report
    prog = prog or cx.prog
    if _DEP_DEPTH[0] >= 1:
        return []
    ck = (prop, id(prog), cx.check.tier)
    if ck not in _DEP_CACHE:
        sub = report.Check(prop, cx.check.tier)
        scx = Cx(sub, {'default': prog})
        scx._walks = cx._walks
        _DEP_DEPTH[0] += 1
        try:
            importlib.import_module('rules.' + prop).check(scx)
            _DEP_CACHE[ck] = (sub, None)
        except report.AnchorLost as e:
            _DEP_CACHE[ck] = (sub, str(e))
        finally:
            _DEP_DEPTH[0] -= 1
    sub, lost = _DEP_CACHE[ck]
    if lost is not None:
        cx.check.error('imported rule "%s" (%s %s): anchor lost: %s' % (name, prop, '/'.join(rule_ids), lost))
        return []
    import re as _re
    # `only`: import just the instances of those rules that this property needs (a broader import would raise an alarm for
    # this property on a tree where only the other property is broken)
    broken = [v for r in sub.rules if r.rid in rule_ids for v in r.violations if only is None or _re.search(only, v.key)]
    rule.instance('%s: established by %s %s%s' % (name, prop, '/'.join(rule_ids), ' (instances matching /%s/)' % only if only else ''))
    if broken:
        rule.violation('%s|broken|%s' % (name, ';'.join(sorted(v.key for v in broken))), '%s does not hold (%s)' % (
            name, '; '.join('%s: %s' % (v.key, v.what[:160]) for v in broken[:3])), loc=prop)
    return broken


def _contains_node(root, target):
    if root is None or target is None:
        return False
    for n in ir.walk(root):
        if n is target:
            return True
    return False


def conditioned_on(prog, fn_body, inner_node, cond_node):
    """is `inner_node` lexically inside a branch of an `if` / `if let` / `match` whose condition (scrutinee) contains `cond_node`?"""
    for n in ir.walk(fn_body):
        k = n.get('k')
        if k == 'If':
            c, branches = n['cond'], [n['then']] + ([n['else']] if 'else' in n else [])
        elif k == 'Match':
            c, branches = n['scrut'], [a['body'] for a in n['arms']]
        else:
            continue
        if _contains_node(c, cond_node) and any(_contains_node(b, inner_node) for b in branches):
            return True
    return False


def term_cases(t, cond=T):
    """flatten an ite-term into [(condition, leaf)]"""
    if isinstance(t, tuple) and t and t[0] == 'ite':
        return term_cases(t[2], And(cond, t[1])) + term_cases(t[3], And(cond, Not(t[1])))
    return [(cond, t)]


def same_term(a, b, under=T):
    """are two value terms equal on every path (modulo how the choice is written: if/else, if let, match, nested or not)?"""
    if a == b:
        return True
    if a is None or b is None:
        return False
    for ca, la in term_cases(a):
        for cb, lb in term_cases(b):
            if la != lb and sat(And(under, ca, cb)) is not None:
                return False
    return True


def string_cases(w, term, under=T, _depth=0):
    """every string a string-valued term can denote, as [(condition, [pieces])]: conditional values per case, `format!` templates
       flattened (also nested), accumulators read through their appends (an append under a condition is in or out), empty strings
       dropped, adjacent literal pieces merged.  Two ways of writing the same concatenation give the same cases."""
    def merge(ps):
        out = []
        for x in ps:
            if x[0] == 'lit' and isinstance(x[1], str):
                if not x[1]:
                    continue
                if out and out[-1][0] == 'lit' and isinstance(out[-1][1], str):
                    out[-1] = ('lit', out[-1][1] + x[1])
                    continue
            out.append(x)
        return out

    def seq(parts, cond0):
        cases = [(cond0, [])]
        for kind, val, pc in parts:
            new = []
            for c, ps in cases:
                if pc is not T:
                    cc = And(c, Not(pc))
                    if sat(cc) is not None:
                        new.append((cc, ps))
                cin = And(c, pc)
                if sat(cin) is None:
                    continue
                if kind == 'lit':
                    new.append((cin, ps + [val]))
                else:
                    for c2, ps2 in string_cases(w, val, cin, _depth + 1):
                        new.append((c2, ps + ps2))
            cases = new
            if len(cases) > 64:
                raise AnchorLost('string value with too many cases')
        return cases
    t = term
    if _depth > 6 or not isinstance(t, tuple) or not t:
        return [(under, [t])]
    if t[0] == 'ite':
        out = []
        for c_, leaf in term_cases(t):
            cc = And(under, c_)
            if sat(cc) is not None:
                out.extend(string_cases(w, leaf, cc, _depth + 1))
        return [(c, merge(ps)) for c, ps in out]
    if t[0] == 'fmt':
        parts = []
        for pc_ in t[1]:
            if isinstance(pc_, str):
                parts.append(('lit', ('lit', pc_), T))
            else:
                parts.append(('val', t[2 + pc_[1]], T))
        return [(c, merge(ps)) for c, ps in seq(parts, under)]
    if t[0] == 'fresh' or t == ('lit', ''):
        return [(under, [])]
    if t[0] == 'local':
        apps = [e for e in w.events if e.kind == 'local_mut' and e.data['local'] == t
                and e.data['method'] in ('init', 'push', 'push_str', 'add_assign')]
        parts = [('val', e.data['args'][0], e.pc) for e in apps]
        return [(c, merge(ps)) for c, ps in seq(parts, under)]
    return [(under, [t])]


class _VData(VirtualEvent):
    def __init__(self, ev, pc, data):
        VirtualEvent.__init__(self, ev, pc)
        self.data = data


def local_muts(w):
    """local accumulator mutations (push / push_str / += ...); an appended value chosen by a conditional expression counts as one
       append per case, each under its own path condition"""
    out = []
    for e in w.events:
        if e.kind != 'local_mut':
            continue
        a = e.data.get('args') or []
        if a and isinstance(a[0], tuple) and a[0][:1] == ('ite',):
            for c_, leaf in term_cases(a[0]):
                if sat(And(e.pc, c_)) is not None:
                    out.append(_VData(e, And(e.pc, c_), dict(e.data, args=[leaf] + list(a[1:]))))
        else:
            out.append(e)
    return out


def rule_config_index_tables(cx, rule, which=('user_config_idxs', 'oper_config_idxs'), prog=None):
    """the name -> position tables of configured users / operators are built from the configuration itself: every entry's name,
       verbatim, mapped to its index, and never written afterwards (shared: C03, C11, C20; C05 rechecks the same for its unwraps)"""
    prog = prog or cx.prog
    P_ = lambda n: ('param', n)
    fm = cx.fn('new_from_config', 'MainState', prog=prog)
    wm = cx.walk(fm, prog=prog, args=[P_('config')])
    lit = [e for e in wm.events if e.kind == 'adt' and e.data['adt'].endswith('MainState')]
    ins = [e for e in wm.events if e.kind == 'local_mut' and e.data['method'] == 'insert']
    lists = {'user_config_idxs': 'users', 'oper_config_idxs': 'operators'}
    for f_ in which:
        l_ = lists[f_]
        lst = ('some_of', ('field', P_('config'), l_))
        rule.instance('%s maps every configured %s name to its position' % (f_, l_[:-1]))
        v = lit[0].data['fields'].get(f_) if len(lit) == 1 else None
        ok = False
        if isinstance(v, tuple) and v[:1] == ('mapped',):
            ok = v[1] == ('enum', lst) and v[2] == ('tuple', ('field', ('elem', lst), 'name'), ('index_of', lst)) and v[3] in (('T',), T)
        elif isinstance(v, tuple) and v[:1] == ('local',):
            mine = [e for e in ins if e.data['local'] == v]
            ok = len(mine) == 1 and mine[0].data['args'] == [('field', ('elem', lst), 'name'), ('index_of', lst)]
        if not ok:
            rule.violation('MainState::new_from_config|%s' % f_, 'the table %s is not {entry.name -> position} over config.%s: a configured %s '
                           'is not found under its own name (its password / mask is then not applied) or found under another one'
                           % (f_, l_, l_[:-1]), loc=fm)
