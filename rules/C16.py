"""C16 — Channels are born with a founder, die with the last member, or come from config."""
from .common import *  # noqa: F401,F403
from .structs import P, ME, RANK_SETS, RANK_FLAG, check_rank_siblings
from .C03 import cx_census

CHANNELS_TY = 'HashMap<std::string::String, state::structs::Channel>'


def base_fn(fn):
    return short_fn(fn.replace('::{closure#0}', ''))


def check(cx):
    ck = cx.check
    ck.decides += [
        'R16.1 channels are created only by process_join (under "not existing && quota": C07 R7.1) and by VolatileState::new_from_config; a user-created channel has exactly the creator as member with founder+operator only, no topic, no restrictions, empty lists, not preconfigured',
        'R16.2 channels are deleted only in remove_user_from_channel, exactly when empty and not preconfigured (C06 R6.4), and every departure goes through it (C04 R4.1)',
        'R16.3 configured channels: one per config entry, preconfigured=true (only site), topic and modes from the entry, the five rank lists moved to default_modes; Channel::add_user grants the configured ranks on join',
    ]
    ck.does_not_decide += ['TOML deserialisation of the channel entries (serde derive, trusted)']
    prog = cx.prog
    census = cx_census(cx)

    r1 = cx.rule('R16.1', 'creation census and shape of a user-created channel', floor=5, kind='census+shape')
    for fn, e in census:
        if e.kind == 'call' and CHANNELS_TY in (e.data.get('recv_ty') or '') and e.data['name'] in MUTATORS:
            b = base_fn(fn)
            r1.instance('%s: channels.%s' % (b, e.data['name']))
            ok = (e.data['name'] == 'insert' and b in ('process_join', 'new_from_config')) or \
                 (e.data['name'] == 'remove' and b == 'remove_user_from_channel')
            if not ok:
                r1.violation('%s|channel-registry-%s' % (b, e.data['name']), 'the channel map is changed (%s) in %s' % (e.data['name'], b),
                             loc=cx.loc(e.node))
    r1.instance('a JOIN decided as creation creates the channel with the joiner as founder (C07 R7.1)')
    depends(cx, r1, 'C07', ('R7.1',), 'creation happens exactly for (!exists && quota) with new_on_user_join(own nick)',
            only=r'create-formula|create-args|no-create')
    # the channel JOIN creates is the constructor's value: the handler neither edits it before storing it nor sets attributes of a
    # channel (key, limit, topic, lists ..) - those change only through MODE / TOPIC
    fj_ = cx.fn('process_join')
    wj_ = cx.walk(fj_, key='census')
    ATTRS = ('modes', 'topic', 'default_modes', 'preconfigured', 'creation_time', 'ban_info')
    r1.instance('process_join stores the constructed channel unedited and writes no channel attribute')
    for e in wj_.events:
        tgt = None
        if e.kind in ('assign', 'assignop') and not e.data.get('init'):
            tgt = e.data['lhs']
        elif e.kind == 'call' and e.data.get('args') and e.data['name'] in MUTATORS and not e.data.get('local'):
            tgt = e.data['args'][0]
        if not isinstance(tgt, tuple):
            continue
        rt = root_of(tgt)
        pth = path_of(tgt)
        fresh_edit = isinstance(rt, tuple) and rt[:1] == ('call',) and rt[1].split('::')[-1] == 'new_on_user_join'
        attr_write = 'channels' in pth and any(a_ in pth[pth.index('channels') + 1:] for a_ in ATTRS)
        if fresh_edit or attr_write:
            fld_ = [a_ for a_ in pth if a_ in ATTRS + ('key', 'client_limit')]
            r1.violation('process_join|channel-attribute-write|%s' % '.'.join(fld_[-2:] or ['?']), 'JOIN writes a channel attribute (%s): a user-created '
                         'channel is not the plain constructor value / an existing channel is altered by a JOIN' % show_term(tgt)[:70],
                         loc=cx.loc(e.node))
    fnew = cx.fn('new_on_user_join')
    UN = P('user_nick')
    wn = cx.walk(fnew, args=[UN], key='c16')
    v = wn.retval
    r1.instance('new_on_user_join literal')
    okv = bool(v) and v[0] == 'adt' and v[1].endswith('structs::Channel')
    d = dict(v[3]) if okv else {}
    # the member map of the new channel, however it is written: a fresh map with inserts, or `HashMap::from([(k, v), ..])`
    users_v = d.get('users', ('x',))
    members = None
    if users_v[0] == 'local':
        members = [(e.data['args'][0], e.data['args'][1], e.pc) for e in wn.events if e.kind == 'local_mut' and e.data['local'] == users_v
                   and e.data['method'] == 'insert']
        if any(e.kind == 'local_mut' and e.data['local'] == users_v and e.data['method'] not in ('insert', 'init', 'reserve') for e in wn.events):
            members = None
    elif users_v[0] == 'array' and all(isinstance(t_, tuple) and t_[:1] == ('tuple',) and len(t_) == 3 for t_ in users_v[1:]):
        members = [(t_[1], t_[2], T) for t_ in users_v[1:]]
    elif users_v[0] == 'fresh':
        members = []
    if okv:
        okv = (d.get('topic') == ('none',) and sym.as_formula(d.get('preconfigured')) == F
               and d.get('ban_info', ('x',))[0] == 'fresh'
               and d.get('modes') == ('call', cx.fn('new_for_channel'), UN)
               and isinstance(d.get('default_modes'), tuple) and d['default_modes'][0] == 'call' and d['default_modes'][1].endswith('default')
               and members is not None and len(members) == 1 and members[0][0] == UN and members[0][2] == T
               and members[0][1] == ('call', cx.fn('new_for_created_channel')))
    if not okv:
        r1.violation('Channel::new_on_user_join|shape', 'a user-created channel is not {members: {creator}, no topic, fresh modes/lists for the '
                     'creator, not preconfigured}', loc=fnew)
    fcr = cx.fn('new_for_created_channel')
    wcr = cx.walk(fcr, args=[])
    r1.instance('creator rank record: founder + operator only')
    cv = wcr.retval
    flags = {k: sym.as_formula(val) for k, val in cv[3]} if cv and cv[0] == 'adt' else {}
    if flags != {'founder': T, 'operator': T, 'protected': F, 'voice': F, 'half_oper': F}:
        r1.violation('ChannelUserModes::new_for_created_channel|flags', 'the creator does not get exactly founder+operator', loc=fcr)
    fm = cx.fn('new_for_channel')
    wm = cx.walk(fm, args=[UN])
    mv = wm.retval
    r1.instance('new channel modes: default + founders/operators = {creator}')
    okm = bool(mv) and mv[0] == 'adt' and len(mv) > 4 and mv[4][0] == 'call' and mv[4][1].endswith('default')
    if okm:
        md = dict(mv[3])
        okm = set(md) == {'operators', 'founders'} and all(val == ('some', ('array', UN)) for val in md.values())
    if not okm:
        r1.violation('ChannelModes::new_for_channel|shape', 'a new channel\'s modes are not the defaults plus founders/operators = {creator}', loc=fm)

    r2 = cx.rule('R16.2', 'destruction', floor=5, kind='census+equivalence')
    from .C04 import rule_membership_funnel
    from .C06 import rule_channel_deletion
    rule_membership_funnel(cx, r2, only=('remove_user', 'remove_user_from_channel', 'new_on_user_join'))     # every way of leaving goes through remove_user_from_channel
    rule_channel_deletion(cx, r2)
    depends(cx, r2, 'C03', ('R3.3', 'R3.6'), 'a registered connection stays marked as such, so its disconnect is cleaned up',
            only=r'writes-authenticated|authenticate-reentry')
    depends(cx, r2, 'C02', ('R2.1',), 'only the teardown takes a user out of the registry', only=r'registry-remove|calls-remove_user')      # which deletes the channel exactly when it became empty and is not preconfigured

    r3 = cx.rule('R16.3', 'configured channels', floor=3, kind='shape')
    fc = cx.fn('new_from_config', 'VolatileState')
    CFG = P('config')
    wc = cx.walk(fc, args=[CFG], key='c16')
    lits = [e for e in wc.events if e.kind == 'adt' and e.data['adt'].endswith('structs::Channel')]
    r3.instance('Channel literal per config entry')
    centry = ('elem', ('some_of', field(CFG, 'channels')))
    if len(lits) != 1:
        r3.violation('VolatileState::new_from_config|literal', 'configured channels are not built from one Channel literal', loc=fc)
    else:
        f = lits[0].data['fields']
        loops_ok = any(l[2] == ('some_of', field(CFG, 'channels')) for l in lits[0].loops)
        modes_ok = f.get('modes') == field(centry, 'modes')
        dm = f.get('default_modes')
        dm_ok = isinstance(dm, tuple) and dm[0] == 'call' and dm[1].endswith('new_from_modes_and_cleanup')
        topic_ok = 'topic' in repr(f.get('topic')) and mentions(f.get('topic'), centry)
        pre_ok = sym.as_formula(f.get('preconfigured')) == T
        users_ok = f.get('users', ('x',))[0] == 'fresh'
        if not (loops_ok and modes_ok and dm_ok and topic_ok and pre_ok and users_ok):
            r3.violation('VolatileState::new_from_config|shape', 'a configured channel is not {topic, modes from the entry, rank lists moved to '
                         'default_modes, empty, preconfigured} (loop=%s modes=%s default_modes=%s topic=%s preconfigured=%s users=%s)'
                         % (loops_ok, modes_ok, dm_ok, topic_ok, pre_ok, users_ok), loc=cx.loc(lits[0].node))
        # aliasing: the value stored as `modes` is the very variable the clean-up emptied the rank lists of (a second copy of the
        # configured modes would still carry them: the lists then name nicks that are not members)
        cl = [e for e in wc.events if e.kind == 'call' and e.data['name'] == 'new_from_modes_and_cleanup']
        r3.instance('stored modes are the cleaned-up variable')
        fnode = [x for x in lits[0].node.get('fields', []) if isinstance(x, dict) and (x.get('name') == 'modes' or x.get('f') == 'modes')]
        if not fnode:
            # field names live in the ADT definition order
            names = [x['name'] for x in prog.adts[lits[0].data['adt']]['variants'][0]['fields']]
            fl = lits[0].node.get('fields', [])
            idxs = [x.get('i', x.get('idx')) for x in fl]
            for x in fl:
                i = x.get('i', x.get('idx'))
                if i is not None and i < len(names) and names[i] == 'modes':
                    fnode = [x]
        alias_ok = False
        if len(cl) == 1 and fnode and cl[0].seq < lits[0].seq:
            arg = cl[0].node['args'][0]
            stored = ir.strip(fnode[0]['e'])
            cleaned = ir.strip(arg['e']) if arg.get('k') == 'Borrow' and arg.get('mut') else None
            alias_ok = bool(cleaned) and stored.get('k') == 'Var' and cleaned.get('k') == 'Var' and stored.get('v') == cleaned.get('v')
        if not alias_ok:
            r3.violation('VolatileState::new_from_config|modes-not-cleaned', 'the modes stored in a configured channel are not the value whose '
                         'rank lists were moved to default_modes: the channel starts with rank-list entries for nicks that are not members '
                         '(prefix-addressed messages then reach non-members / abort on absent nicks)', loc=cx.loc(lits[0].node))
        ins = [e for e in wc.events if e.kind == 'local_mut' and e.data['method'] == 'insert']
        if len(ins) != 1 or ins[0].data['args'][0] != field(centry, 'name'):
            r3.violation('VolatileState::new_from_config|name', 'a configured channel is not stored under its configured name', loc=fc)
    r3.instance('preconfigured=true only in new_from_config')
    for fn, e in census:
        if e.kind == 'adt' and e.data['adt'].endswith('structs::Channel'):
            pv = e.data['fields'].get('preconfigured')
            if pv is not None and sym.as_formula(pv) != F and base_fn(fn) != 'new_from_config':
                r3.violation('%s|preconfigured-literal' % base_fn(fn), 'a channel is marked preconfigured outside configuration loading', loc=cx.loc(e.node))
        if e.kind == 'assign' and not e.data.get('init') and path_of(e.data['lhs'])[-1:] == ['preconfigured']:
            r3.violation('%s|preconfigured-write' % base_fn(fn), '`preconfigured` is reassigned', loc=cx.loc(e.node))
    fcl = cx.fn('new_from_modes_and_cleanup')
    MP = P('modes')
    wcl = cx.walk(fcl, args=[MP])
    cv = wcl.retval
    r3.instance('five rank lists move to default_modes')
    okc = bool(cv) and cv[0] == 'adt'
    if okc:
        cd = dict(cv[3])
        takes = {path_of(x['place'])[-1] for e, x in effects(wcl, prog, (MP,)) if x['op'] == 'take'}
        okc = set(cd) == set(RANK_SETS) == takes and all(mentions(cd[s], field(MP, s)) for s in RANK_SETS)
    if not okc:
        r3.violation('ChannelDefaultModes::new_from_modes_and_cleanup|fields', 'the configured rank lists are not moved one-to-one into '
                     'default_modes', loc=fcl)
    r3.instance('the configured rank lists (default_modes) are never written after construction')
    for fn_, e in census:
        tgt = None
        if e.kind == 'call' and e.data.get('args') and e.data['name'] in MUTATORS | {'take'} and 'default_modes' in path_of(e.data['args'][0]):
            tgt = e.data['name']
        if e.kind == 'assign' and not e.data.get('init') and 'default_modes' in path_of(e.data['lhs']):
            tgt = 'assignment'
        if e.kind == 'call' and e.data.get('local') and e.data.get('args') and path_of(e.data['args'][0])[-1:] == ['default_modes'] and \
                local_mut_self(prog, e.data['callee']):
            tgt = e.data['name']
        if tgt and base_fn(fn_) not in ('new_from_config', 'new_from_modes_and_cleanup', 'new_on_user_join'):
            r3.violation('%s|writes-default_modes|%s' % (base_fn(fn_), tgt), 'the configured rank lists of a channel are changed after start-up '
                         '(%s in %s): the listed nicknames no longer get their rank whenever they join' % (tgt, base_fn(fn_)), loc=cx.loc(e.node))
    r3b = cx.rule('R16.3b', 'configured ranks granted on join (sibling agreement)', floor=20, kind='sibling-agreement')
    check_rank_siblings(cx, r3b)
