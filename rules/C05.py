"""C05 — No input can crash a session handler or the server.

Decided statically: every panic-capable operation of the (non start-up) program is discharged by
a guard, a validated-input fact, a global invariant or a justified table row (engine D, see
rules/panics.py); no socket/timer await happens while the state lock is held; handler errors
do not end the serving loop and output is flushed after every event.
"""
from analysis import oblig, report
from .common import *  # noqa: F401,F403
from .panics import Discharger, base_fn, P
from .C03 import cx_census

IO_NAMES = {'flush', 'send', 'send_all', 'next', 'sleep', 'sleep_until', 'tick', 'accept', 'read', 'write', 'write_all', 'read_line',
            'shutdown', 'connect', 'close', 'poll_next', 'timeout', 'recv', 'reverse_lookup'}
CPU_AWAITS = {'argon2_verify_password_async'}


def site_key(s):
    subj = show_term(s.subject)
    if s.kind == 'index':
        ix = s.detail['index']
        if ix[0] == 'adt' and ix[1].startswith('std::ops::Range'):
            d = dict(ix[3])
            subj += '[%s..%s]' % (show_term(d['start']) if 'start' in d else '', show_term(d['end']) if 'end' in d else '')
        else:
            subj += '[' + show_term(ix) + ']'
    return '%s|%s|%s' % (base_fn(s.fn), s.kind, subj[:160])


def check(cx):
    ck = cx.check
    ck.decides += [
        'R5.0 the compiler-inserted panic edges of MIR (overflow, bounds, division) are all covered by the site census (no unanalysed site)',
        'R5.1 every panic-capable site (unwrap/expect, indexing, str slicing, integer arithmetic, explicit panic, library calls with panicking preconditions) is discharged by a local guard (D1), a fact re-located in the parser/validator (D2), an invariant I1-I8 (D3) or a justified row (D4)',
        'R5.2 no await that can perform socket or timer I/O while a state guard is live',
        'R5.3 a handler error does not end the serving loop, and output is flushed after every event even on error',
    ]
    ck.does_not_decide += ['resource exhaustion (unbounded queues, memory)', 'panics inside dependencies on values this crate forwards unchanged',
                           'the two detached timer tasks: their send().unwrap() after the connection ended and interval(0) for ping_timeout=0 '
                           'are listed as observations (no session handler is affected)']
    ck.assume('the system clock does not run before the UNIX epoch nor backwards between two stamps (clock rows)')
    ck.assume('I6: a registered user\'s queue receiver lives until its own task removed the user (C06 R6.1), so fan-out sends cannot fail')
    for cfg, prog in cx.progs.items():
        run_config(cx, cfg, prog)


def run_config(cx, cfg, prog):
    ck = cx.check
    tag = '' if cfg == 'default' else '[%s] ' % cfg
    D = Discharger(cx, prog)
    r0 = cx.rule('R5.0' + ('@' + cfg if cfg != 'default' else ''), 'MIR panic-edge census is covered', floor=60, kind='census-cross-check')
    r1 = cx.rule('R5.1' + ('@' + cfg if cfg != 'default' else ''), 'panic obligations discharged', floor=200, kind='obligation')
    from .C03 import census_walks
    walks = census_walks(cx, prog)
    fns = [(d, prog.bodies[d]) for d, _ in walks]
    site_lines = {}
    all_sites = []
    for d, w in walks:
        ss = oblig.sites_of(prog, d, w)
        for s in ss:
            sp = s.ev.node.get('sp')
            if sp:
                site_lines.setdefault((sp[0], sp[1]), []).append(s)
            all_sites.append((s, w))
    # ---- R5.0 cross-validation against MIR
    for d, b in prog.bodies.items():
        if 'mir' not in b or prog.is_derived(b):
            continue
        top = d.split('::{closure')[0]
        if top in prog.bodies and prog.is_derived(prog.bodies[top]):
            continue
        for blk in b['mir']:
            if blk.get('cleanup'):
                continue
            t = blk.get('t')
            what = None
            if t == 'Assert':
                what = blk['kind']
            elif t == 'Call' and any(x in blk.get('callee', '') for x in ('panicking::panic', 'begin_panic', 'unwrap_failed', 'expect_failed')):
                what = 'call ' + blk['callee'].split('::')[-1]
            if what is None:
                continue
            sp = blk.get('sp')
            if what.startswith('Resumed'):
                continue
            r0.instance('%s%s %s:%d' % (tag, what, prog.files[sp[0]], sp[1]))
            if (sp[0], sp[1]) not in site_lines:
                if sp[3] and ('select' in sp[3] or 'lazy_static' in sp[3] or 'flags' in sp[3]) and what.startswith('Overflow'):
                    continue    # shift arithmetic inside third-party macro expansions on constant operands
                r0.violation('%s|unanalysed-panic-edge|%s|%s:%d' % (short_fn(top), what, prog.files[sp[0]], sp[1]),
                             '%sa compiler-inserted %s check at %s:%d is not covered by the panic-site census (not analysed)'
                             % (tag, what, prog.files[sp[0]], sp[1]), loc='%s:%d' % (prog.files[sp[0]], sp[1]))
    # ---- R5.1 discharge
    stale_seen = {}
    i5_sites = {}
    for s, w in all_sites:
        how, why = D.discharge(s, w)
        desc = '%s%s %s [%s]' % (tag, site_key(s), prog.loc(s.ev.node), how or 'UNDISCHARGED')
        r1.instance(desc)
        if how:
            if how.startswith('OBS'):
                r1.observe('%s%s at %s: %s' % (tag, site_key(s), prog.loc(s.ev.node), why))
            continue
        if why.startswith('in ') and ': ' in why and 'repeated name' in why:
            caller = why[3:].split(':', 1)[0]
            stale_seen.setdefault(caller, []).append((s, why))
            continue
        if why.startswith('I5 broken'):
            i5_sites.setdefault(why, []).append(s)
            continue
        r1.violation(site_key(s), '%s%s at %s can abort the handler: %s' % (tag, site_key(s).replace('|', ' '), prog.loc(s.ev.node), why),
                     loc=prog.loc(s.ev.node), config=cfg)
    for caller, lst in stale_seen.items():
        r1.violation('%s|repeated-element-stale-membership' % caller, '%s%s: %s (aborts in %s)' % (
            tag, caller, lst[0][1].split(': ', 1)[1], ', '.join(sorted({base_fn(s.fn) for s, _ in lst}))), loc=prog.loc(lst[0][0].ev.node))
    for why, lst in i5_sites.items():
        r1.violation('I5|operators_count|' + why.split('(', 1)[1].rstrip(')').split(')')[0], '%s%s; affected decrements: %s' % (
            tag, why, ', '.join('%s (%s)' % (base_fn(s.fn), prog.loc(s.ev.node)) for s in lst)), loc=prog.loc(lst[0].ev.node))
    r1.observe('%sdischarge summary: %s' % (tag, ', '.join('%s=%d' % kv for kv in sorted(D.used.items()))))
    # invariants the D3 rows rely on: re-evaluated from the checks that establish them
    if cfg == 'default':
        inv = cx.rule('R5.1i', 'invariants used by D3 are established', floor=2, kind='dependency')
        for prop, rules_, name in (('C02', ('R2.3', 'R2.5', 'R2.6'), 'I1'), ('C04', ('R4.1', 'R4.2', 'R4.3', 'R4.4'), 'I2/I3'),
                                   ('C16', ('R16.1', 'R16.3'), 'I2/I3'), ('C15', ('R15.1', 'R15.2'), 'I4'), ('C19', ('R19.1',), 'I4')):
            only = r'modes-not-cleaned|new_from_modes_and_cleanup\|fields|new_for_channel\|shape|new_on_user_join\|shape' if prop == 'C16' else None
            if name == 'I4':
                only = r'wallops-condition\|(stale|spurious-insert)|coupling\|wallops'     # I4: the WALLOPS audience set names registered users only
            import importlib
            sub = report.Check(prop, cx.check.tier)
            scx = Cx(sub, {'default': prog})
            scx._walks = cx._walks
            from .common import _DEP_DEPTH
            _DEP_DEPTH[0] += 1
            try:
                importlib.import_module('rules.' + prop).check(scx)
            except report.AnchorLost as e:
                cx.check.error('invariant %s: the check establishing it (%s) lost its anchor: %s' % (name, prop, e))
                continue
            finally:
                _DEP_DEPTH[0] -= 1
            import re as _re
            broken = [v for r in sub.rules if r.rid in rules_ for v in r.violations if only is None or _re.search(only, v.key)]
            n_dep = sum(v for k, v in D.used.items() if k.startswith('D3:' + name.split('/')[0]) or (name == 'I2/I3' and k in ('D3:I2', 'D3:I3')))
            inv.instance('%s established by %s %s: %d sites depend on it' % (name, prop, '/'.join(rules_), n_dep))
            if broken:
                inv.violation('%s|broken|%s' % (name, ';'.join(sorted(v.key for v in broken))), 'invariant %s, which discharges %d unwrap sites, '
                              'is violated (%s): those handlers abort when the invariant is broken at run time' % (
                                  name, n_dep, '; '.join(v.key for v in broken)), loc=prop)

        # facts re-located from the validators (D2) for MODE arguments hold only if the handler takes an argument exactly where
        # validate_channelmodes counted one
        depends(cx, inv, 'C08', ('R8.8',), 'validated MODE arguments reach the letter they were validated for', prog=prog)

    # ---------------------------------------------------------------- R5.2 D-io
    r2 = cx.rule('R5.2' + ('@' + cfg if cfg != 'default' else ''), 'no I/O await under a state guard', floor=100, kind='effect')
    local_async = {}

    def awaits_of(fn):
        w = cx.walk(fn, prog=prog, key='census')
        return [e for e in w.events if e.kind == 'await']

    def io_free(fn, depth=0, seen=()):
        """all awaits of fn are buffer-only / CPU / io_free local functions"""
        if fn in local_async:
            return local_async[fn]
        if depth > 4 or fn in seen:
            return (True, None)
        res = (True, None)
        for e in awaits_of(fn):
            c = e.data.get('callee') or ''
            cls = classify_await(c, fn, depth, seen)
            if cls[0] == 'io':
                res = (False, '%s awaits %s' % (base_fn(fn), c))
                break
        local_async[fn] = res
        return res

    def classify_await(c, fn, depth, seen):
        nm = c.split('::')[-1] if c else ''
        if not c:
            return ('unknown', None)
        if c in prog.bodies:
            if base_fn(c) == 'feed' and 'BufferedLineStream' in c:
                w = cx.walk(c, prog=prog, key='census')
                # buffer-only: nothing is awaited, the framed socket (`self.stream`) is not touched, and every call is the push itself
                # or a local helper that was looked through (its own calls are in the event list)
                sock = field(('param', 'self'), 'stream')
                ACCESSORS = ('codec', 'get_ref', 'max_length', 'len', 'is_empty', 'capacity')

                def touches_socket(e_):
                    # a method called on the framed socket itself (or on something reached through it) other than a pure accessor
                    a0 = (e_.data.get('args') or [None])[0]
                    return isinstance(a0, tuple) and mentions(a0, sock) and e_.data.get('name') not in ACCESSORS
                ok = not [e for e in w.events if e.kind == 'await'] and all(
                    (e.data.get('name') == 'push' or (e.data.get('local') and e.data.get('inlined')) or not e.data.get('local'))
                    and not touches_socket(e)
                    for e in w.events if e.kind == 'call')
                return ('buffer', None) if ok else ('io', 'BufferedLineStream::feed is no longer buffer-only')
            if nm in CPU_AWAITS:
                return ('cpu', None)
            ok, why = io_free(c, depth + 1, seen + (fn,))
            return ('local', None) if ok else ('io', why)
        if c.startswith('tokio::sync::RwLock'):
            return ('lock', None)
        if nm in IO_NAMES or 'Framed' in c or 'tokio::time' in c or 'tokio::net' in c or 'futures::' in c or 'tokio_stream' in c:
            return ('io', c)
        return ('other', None)

    for d, b in fns:
        w = cx.walk(d, prog=prog, key='census')
        for e in w.events:
            if e.kind != 'await' or not e.guards:
                continue
            c = e.data.get('callee') or ''
            cls, why = classify_await(c, d, 0, ())
            r2.instance('%s%s: await %s under %s guard -> %s' % (tag, base_fn(d), c.split('::')[-1], e.guards[-1][0], cls))
            if cls == 'io':
                r2.violation('%s|io-under-guard|%s' % (base_fn(d), c.split('::')[-1]), '%s%s awaits %s while holding the state %s guard: a peer that '
                             'stops reading (or a timer) stalls every other session (%s)' % (tag, base_fn(d), c, e.guards[-1][0], why or c),
                             loc=prog.loc(e.node))
            elif cls == 'cpu':
                r2.observe('%s%s awaits %s (CPU-bound, off-thread) while holding the state %s guard: other sessions are delayed, not lost'
                           % (tag, base_fn(d), c.split('::')[-1], e.guards[-1][0]))
            elif cls in ('unknown', 'other'):
                r2.violation('%s|unclassified-await-under-guard|%s' % (base_fn(d), c.split('::')[-1] or 'indirect'), '%s%s awaits %s under the state '
                             'guard; the callee is not known to be I/O-free' % (tag, base_fn(d), c or 'an indirect future'), loc=prog.loc(e.node))

    # ---------------------------------------------------------------- R5.3
    if cfg != 'default':
        return
    r3 = cx.rule('R5.3', 'handler errors are not fatal; flush after every event', floor=2, kind='wiring')
    fp = cx.fn('process', 'MainState::process')
    wp = cx.walk(fp, args=[SELF, CONN], key='c05')
    pi = [e for e in wp.events if is_call(e, 'process_internal')]
    fl = [e for e in wp.events if is_call(e, 'flush') and e.data['args'][0] == ('field', CONN, 'stream')]
    r3.instance('process(): process_internal then flush, no early exit in between')
    ok = len(pi) == 1 and len(fl) == 1 and pi[0].seq < fl[0].seq and fl[0].pc == T
    if ok:
        for e in wp.events:
            if pi[0].seq < e.seq < fl[0].seq and e.kind in ('try', 'return'):
                ok = False
    if not ok:
        r3.violation('process|flush-skipped', 'output is not flushed after every event (an error in the handler skips the flush)', loc=fp)
    fu = cx.fn('user_state_process')
    wu = cx.walk(fu, args=[P('main_state'), P('stream'), P('addr')], key='c06')
    r3.instance('serving loop: Err from process() is logged, the loop continues')
    procs = [e for e in wu.events if is_call(e, 'process') and e.data.get('local')]
    bad = [e for e in wu.events if e.kind in ('return', 'try') and procs and e.seq > procs[0].seq]
    isq = [Atom(a) for e in wu.events for a in atoms(e.pc) if a[0] == 'call' and a[1].endswith('is_quit')]
    brk = [e for e in wu.events if e.kind == 'break' and procs and not (isq and entails(e.pc, isq[0])[0])]
    if not procs or bad or brk:
        r3.violation('user_state_process|error-fatal', 'an error returned by a handler ends the connection task', loc=fu)
