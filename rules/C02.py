"""C02 — One owner per nickname; a connection only ever acts as itself."""
from .common import *  # noqa: F401,F403
from .C03 import cx_census

USERS_TY = 'HashMap<std::string::String, state::structs::User>'


def P(n):
    return ('param', n)


def base_fn(fn):
    return short_fn(fn.replace('::{closure#0}', ''))


# foreign-target table (R2.4): handler -> allowed (effect, place-suffix) on a user that is not the caller
FOREIGN_OK = {
    'process_invite': [('insert', 'invited_to')],          # guarded by C09 R9.5
    'process_kill': [('take', 'quit_sender')],             # guarded by C11 R11.3
    'process_die': [('take', 'quit_sender')],              # guarded by C11 R11.3
}


def check(cx):
    ck = cx.check
    ck.decides += [
        'R2.1 the user registry is inserted into / removed from only by VolatileState::add_user (called only from authenticate), process_nick (re-key) and VolatileState::remove_user (called only from teardown)',
        'R2.2 every registry insert is dominated by "key not present", checked under the same write-guard region as the insert',
        'R2.3 whenever authenticate() can leave `authenticated` true it has registered the user under the connection\'s nick (or reset the flag / ended the session)',
        'R2.4 every mutation of a User entry in any handler is keyed by the connection\'s own nick, except the frozen foreign-target table (INVITE, KILL, DIE)',
        'R2.5 the connection\'s nick is written only by ConnUserState::set_nick, which stores its argument unchanged on every path (the registry key the callers check and insert under is that same argument, C15 R15.2)',
        'R2.6 state effects outside the registration gate (teardown, select arms) that are keyed by the connection\'s nick are guarded by `authenticated`',
    ]
    ck.does_not_decide += ['which contender wins a race for a nickname (any single winner satisfies the property)']
    prog_list = list(cx.progs.items())
    prog = cx.prog
    census = cx_census(cx)

    # ---------------------------------------------------------------- R2.1
    r1 = cx.rule('R2.1', 'registry write census', floor=4, kind='who-may-write')
    allowed_writers = {'add_user': {'insert'}, 'remove_user': {'remove'}, 'process_nick': {'insert', 'remove'}}
    for fn, e in census:
        if e.kind == 'call' and USERS_TY in (e.data.get('recv_ty') or '') and e.data['name'] in MUTATORS | {'get_or_insert'}:
            if e.data['name'] in ('get_mut',):
                continue
            b = base_fn(fn)
            r1.instance('%s: users.%s' % (b, e.data['name']))
            if e.data['name'] not in allowed_writers.get(b, set()):
                r1.violation('%s|registry-%s' % (b, e.data['name']), 'the user registry is changed (%s) in %s' % (e.data['name'], b),
                             loc=cx.loc(e.node))
    rule_registry_callers(cx, r1)

    # ---------------------------------------------------------------- R2.2
    r2 = cx.rule('R2.2', 'check-and-insert under one write guard', floor=2, kind='required-guard')
    wa, fa = rule_insert_checked(cx, r2)

    # ---------------------------------------------------------------- R2.3
    r3 = cx.rule('R2.3', 'authenticated => registered under own nick', floor=2, kind='typestate')
    rule_auth_implies_registered(cx, r3)

    # ---------------------------------------------------------------- R2.4
    r4 = cx.rule('R2.4', 'user mutations keyed by own nick', floor=10, kind='provenance')
    handlers = [d for d, b in prog.bodies.items() if b['kind'] == 'AssocFn' and 'impl state::MainState' in d and '{closure' not in d
                and d.split('::')[-1].startswith('process_')] + [fa]
    for h in sorted(set(handlers)):
        hb = base_fn(h)
        if hb in ('process_mode_channel', 'process_mode_user', 'process_internal', 'process'):
            continue   # analysed through their callers' argument terms (C08 R8.1, C11 R11.2) / below (R2.6)
        w = cx.walk(h, key='c02h')
        for e, x in effects(w, prog):
            place = x['place']
            ukeys = [t[2] for t in subterms(place) if isinstance(t, tuple) and len(t) == 3 and t[0] in ('idx', 'get') and t[1] == USERS]
            if x['op'] in ('get_mut', 'values_mut'):
                continue
            desc = '%s: %s %s' % (hb, x['op'], show_term(place)[:70])
            if not ukeys and not (x['place'] == USERS):
                continue
            r4.instance(desc)
            if x['place'] == USERS:
                continue    # registry insert/remove: R2.1/R2.2
            own = all(k == CONN_NICK for k in ukeys)
            if own:
                continue
            suffix = path_of(place)[-1] if path_of(place) else ''
            if (x['op'], suffix) in FOREIGN_OK.get(hb, []):
                continue
            r4.violation('%s|foreign-user-mutation|%s|%s' % (hb, x['op'], suffix), '%s changes a user entry keyed by %s, which is not the '
                         'connection\'s own nick' % (hb, ', '.join(show_term(k) for k in ukeys)), loc=cx.loc(e.node))

    # ---------------------------------------------------------------- R2.5
    r5 = cx.rule('R2.5', 'connection nick setter stores its argument verbatim', floor=3, kind='provenance')
    NICKP = ('param', 'nick')
    fs = cx.fn('set_nick', 'ConnUserState')
    ws = cx.walk(fs, args=[('param', 'self'), NICKP], key='c02')
    stores = [e for e in ws.events if e.kind == 'assign' and not e.data.get('init') and e.data['lhs'] == ('field', ('param', 'self'), 'nick')]
    r5.instance('set_nick: self.nick = Some(nick) unconditionally')
    if len(stores) != 1 or stores[0].pc != T or stores[0].data['rhs'] != ('some', NICKP):
        r5.violation('ConnUserState::set_nick|stored-value', 'set_nick does not store exactly its argument as the connection\'s nick on every '
                     'path: the registry entry (keyed by the argument) and the connection\'s idea of its own nick diverge', loc=fs)
    r5.instance('set_nick: the argument is not altered before it is stored')
    from .common import _recv_mut
    for e in ws.events:
        touched = None
        if e.kind == 'call' and e.data.get('args') and e.data['args'][0] == NICKP and \
                ((not e.data.get('local') and _recv_mut(e, prog) and prog.ty(e.node['args'][0]).startswith('&mut ')) or
                 (e.data.get('local') and local_mut_self(prog, e.data['callee']))):
            touched = e.data['name']
        if e.kind in ('assign', 'assignop') and not e.data.get('init') and root_of(e.data['lhs']) == NICKP:
            touched = 'assignment'
        if touched and (not stores or e.seq < stores[0].seq):
            r5.violation('ConnUserState::set_nick|argument-altered|%s' % touched, 'set_nick changes its argument (%s) before storing it: the '
                         'connection then answers to a nick other than the one its registry entry is keyed by' % touched, loc=cx.loc(e.node))
    r5.instance('writers of ConnUserState.nick')
    for fn, e in census:
        if e.kind == 'assign' and not e.data.get('init') and path_of(e.data['lhs'])[-1:] == ['nick'] and \
                (e.data.get('lhs_node') or {}).get('adt', '').endswith('ConnUserState') and base_fn(fn) != 'set_nick':
            r5.violation('%s|writes-conn-nick' % base_fn(fn), '%s writes the connection\'s nick directly' % base_fn(fn), loc=cx.loc(e.node))

    # the handlers of R2.4 take the connection's nick as the key of *its* user: true only behind the registration gate
    r4.instance('handlers run only for connections that completed registration (C03 R3.1)')
    depends(cx, r4, 'C03', ('R3.1',), 'only registered connections reach the command handlers', only=r'gate')

    # ---------------------------------------------------------------- R2.6
    r6 = cx.rule('R2.6', 'own-nick effects outside the gate need `authenticated`', floor=1, kind='required-guard')
    auth = Atom(CONN_AUTH)
    for cfg, pg in prog_list:
        ft = cx.fn('remove_user', 'MainState', prog=pg)
        wt = cx.walk(ft, args=[SELF, CONN], prog=pg, key='c02')
        outs = [(ft, wt)]
        pi = cx.fn('process_internal', prog=pg)
        outs.append((pi, cx.walk(pi, prog=pg, key='c02')))
        for fn, w in outs:
            for e, x in effects(w, pg):
                if x['op'] in ('get_mut',):
                    continue
                desc = '%s: %s %s' % (base_fn(fn), x['op'], show_term(x['place'])[:60])
                r6.instance('[%s] %s' % (cfg, desc))
                # ... and keyed by the connection's own nick
                if x['op'] == 'remove_user' and x['args'][:1] != [CONN_NICK]:
                    r6.violation('%s|teardown-key|%s' % (base_fn(fn), show_term(x['args'][0]) if x['args'] else '?'), '%s removes the user '
                                 'stored under %s, which is not the connection\'s own nick' % (base_fn(fn), show_term(x['args'][0]) if x['args'] else '?'),
                                 loc=pg.loc(e.node), config=cfg)
                ukeys = [t[2] for t in subterms(x['place']) if isinstance(t, tuple) and len(t) == 3 and t[0] in ('idx', 'get') and t[1] == USERS]
                if any(k != CONN_NICK for k in ukeys):
                    r6.violation('%s|foreign-key|%s' % (base_fn(fn), x['op']), '%s changes a user entry not keyed by the connection\'s own nick'
                                 % desc, loc=pg.loc(e.node), config=cfg)
                ok, m = entails(e.pc, auth)
                if not ok:
                    argk = ','.join(show_term(a) for a in x['args'][:1]) or show_term(x['place'])
                    r6.violation('%s|unowned-nick-effect|%s(%s)|under=%s' % (base_fn(fn), x['op'], argk, guard_summary(e.pc)), '%s acts on the user registered under the '
                                 'connection\'s nick without requiring that this connection registered it (an unregistered connection that '
                                 'merely named the nick changes/removes the real owner)' % desc, loc=pg.loc(e.node), config=cfg)


def rule_registry_callers(cx, r1):
    """the counting registry functions are called only from registration and teardown (shared: C02 R2.1, C19)"""
    census = cx_census(cx)
    callers = {'add_user': [], 'remove_user': []}
    for fn, e in census:
        if e.kind == 'call' and e.data.get('local') and e.data['callee'].endswith('VolatileState::add_user'):
            callers['add_user'].append((fn, e))
        if e.kind == 'call' and e.data.get('local') and e.data['callee'].endswith('VolatileState::remove_user'):
            callers['remove_user'].append((fn, e))
    for nm, want in (('add_user', 'authenticate'), ('remove_user', 'remove_user')):
        r1.instance('VolatileState::%s callers: %s' % (nm, ','.join(base_fn(f) for f, _ in callers[nm])))
        for fn, e in callers[nm]:
            if base_fn(fn) != want:
                r1.violation('%s|calls-%s' % (base_fn(fn), nm), 'VolatileState::%s is called from %s' % (nm, base_fn(fn)), loc=cx.loc(e.node))
        if not callers[nm]:
            r1.violation('nobody|calls-%s' % nm, 'VolatileState::%s is never called' % nm, loc=nm)



def rule_insert_checked(cx, rule):
    """every registry insert is dominated by "key free", checked under the same write guard (shared: C02 R2.2, C18)"""
    prog = cx.prog
    fa = cx.fn('authenticate')
    wa = cx.walk(fa, args=[SELF, CONN], key='c02')
    fnick = cx.fn('process_nick')
    NEW = P('nick')
    wn = cx.walk(fnick, args=[SELF, CONN, NEW, P('msg')], key='c02')
    sites = []
    for e in wa.events:
        if is_call(e, 'add_user') and e.data.get('local'):
            sites.append(('authenticate', wa, e, e.data['args'][1]))
    for e, x in effects(wn, prog):
        if x['op'] == 'insert' and x['place'] == USERS:
            sites.append(('process_nick', wn, e, x['args'][0]))
    for nm, w, e, key in sites:
        rule.instance('%s: insert of %s' % (nm, show_term(key)))
        free = Not(has(USERS, key))
        ok, m = entails(e.pc, free)
        wg = [g for g in e.guards if g[0] == 'write']
        if not ok:
            rule.violation('%s|insert-without-check' % nm, 'a user is inserted under %s without checking that the nick is free' % show_term(key),
                         loc=cx.loc(e.node))
            continue
        if not wg:
            rule.violation('%s|insert-without-write-guard' % nm, 'registry insert outside a write-guard region', loc=cx.loc(e.node))
            continue
        q = [x for x in w.events if x.kind == 'query' and x.data['coll'] == USERS and x.data['key'] == key
             and wg[0] in x.guards and x.seq < e.seq]
        if not q:
            rule.violation('%s|check-outside-guard' % nm, 'the "nick is free" check and the insert are not under the same write-guard region '
                         '(another connection can take the nick in between)', loc=cx.loc(e.node))

    return wa, fa


def rule_auth_implies_registered(cx, rule):
    """authenticated == true at the end of authenticate() implies the user was registered (shared: C02 R2.3, C03, C18)"""
    fa = cx.fn('authenticate')
    wa = cx.walk(fa, args=[SELF, CONN], key='c02')
    AUTH_PLACE = ('field', USTATE, 'authenticated')
    becomes = []
    for e in wa.events:
        if e.kind == 'assign' and not e.data.get('init') and e.data['lhs'] == AUTH_PLACE:
            becomes.append(And(e.pc, sym.as_formula(e.data['rhs'])))
            rule.instance('authenticated := %s' % show(sym.as_formula(e.data['rhs']))[:60])
    done = []
    for e in wa.events:
        if is_call(e, 'add_user') and e.data.get('local') and e.data['args'][1] == CONN_NICK:
            done.append(e.pc)
        if is_call(e, 'store') and e.data['args'][0] == ('field', CONN, 'quit') and e.data['args'][1] == ('lit', 1):
            done.append(e.pc)
    # a later reset of the flag also restores the typestate
    first_true = min([e.seq for e in wa.events if e.kind == 'assign' and e.data.get('lhs') == AUTH_PLACE] or [0])
    for e in wa.events:
        if e.kind == 'assign' and e.data.get('lhs') == AUTH_PLACE and sym.as_formula(e.data['rhs']) == F and e.seq > first_true:
            done.append(e.pc)
    if not becomes:
        raise AnchorLost('authenticate(): assignment to authenticated not found')
    ok, m = entails(Or(*becomes), Or(*done))
    rule.instance('every path that sets authenticated registers the user, resets the flag or ends the session')
    if not ok:
        rule.violation('authenticate|authenticated-without-user', 'authenticate() can return with authenticated == true although no user was '
                     'registered for this connection (nick taken in the meantime): the connection is then treated as the owner of a '
                     'foreign nick (%s)' % model_str(m), loc=fa)

