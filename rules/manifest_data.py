"""Source of MANIFEST.json (bin/gen_manifest.py)."""

NOTES = ('Technique family: static analysis only. Every check re-extracts the type-checked program from '
         '/repo\'s current working tree (content-hashed cache) and evaluates frozen, repository-specific rules; '
         'nothing is executed, tested, fuzzed or handed to a solver. Exit 2 = no verdict (tree does not compile or '
         'a rule anchor was lost). Quick tier: every rule on the default build configuration. Thorough tier: every rule '
         'again on the tls_rustls, tls_openssl and dns_lookup build configurations (rule ids <id>@<cfg>), plus the '
         'compile-fail witness of C18. Facts a property relies on from another property are imported rule-wise '
         '(DESIGN.md 9.5). bin/mutants is the self-test (hand-written mutants, reverse patches of every fix: commit, and '
         '126 independently seeded changes with must-report / must-stay-silent expectations per check, and 80 independently written '
         'behaviour-preserving refactorings on which every check must stay silent).')

TRUST = ('Trusted base: rustc nightly THIR/MIR for this source (same cfgs as the stable build), the library '
         'contract table in analysis/sym.py (HashMap/HashSet/Option/iterator adaptor semantics), bounded inlining of '
         'closures and named crate-local helpers. A PASS means every site of the governed kind satisfies the rule on '
         'all paths of the structured tree; it does not mean a run was observed. Clauses not decided are listed in '
         'the evidence file.')

CHECKS = {
    'C20': {
        'technique': 'return-value case analysis of MainConfig::new (Ok leaves entail the validation facts), assignment-order check for CLI overrides, census of derive-expanded validator calls, struct-literal/static provenance for Argon2 hash/verify agreement, configuration-field reader census, quota-comparison provenance for max_joins, TLS accept-path delegation in the TLS build configurations',
        'level': ('Decides that a configuration reaches run_server only through MainConfig::new, whose Ok value implies validate() Ok, '
                  'nickname lengths and the certificate/key pair check, with all CLI overrides applied before validation; that the '
                  'generated validators cover name/password/user/operator/channel fields; that hashing and verification share instance, '
                  'salt and parameters and the clear text that is verified is the PASS / OPER parameter exactly as sent (stored, passed on and hashed unaltered); that each CLI option overrides its own field; that each documented setting is read by the code '
                  'implementing it (max_joins: compared with the running number of joined channels before every admission); and (TLS builds) that TLS only changes the transport.'),
        'note': TRUST + ' Cryptographic exactness and plain-vs-TLS transcript equality are not decided; serde deserialisation is trusted.',
    },
    'C18': {
        'technique': 'lock-region analysis over lexical guard live ranges: effect census under write guards, check-and-insert under one guard and registered-flag typestate for nickname claims, transitive acquires() summary for re-entrancy, query-event/guard matching for check-then-act, await census under guards; type-level compile-fail witness (E0596) with a compiling twin in the thorough tier',
        'level': ('Decides the lock discipline that makes each handler one atomic step: state reachable only through the RwLock, '
                  'every effect under a write guard, every acquisition an awaited read()/write() (no try_* acquisition whose failure would skip the guarded step), no acquisition while a guard is held (deadlock freedom of the single lock), every '
                  'presence fact an effect relies on queried under the same guard, one task per connection / one event per iteration / '
                  'in-order buffered output / single queue consumer, no I/O await under the lock, and for simultaneous nickname claims that check and insert share one write guard and the loser is not left marked registered. Linearizability of arbitrary schedules '
                  'as such is NOT decided.'),
        'note': TRUST + ' Fairness of tokio\'s RwLock/scheduler and real-time bounds are not decided.',
    },
    'C17': {
        'technique': 'wiring checks: argument/field provenance of the timer set-up calls, must-reach on the registration success path, select-arm addressing, typestate of the notifier slot (assignment only when empty or after take)',
        'level': ('Decides only the wiring that is necessary for the keep-alive property: token echoed, waker armed on every '
                  'registration with ping_timeout, every PING arms a pong_timeout deadline reporting to this session, expiry ends the '
                  'session, PONG fires the notifier (the only place that may empty the notifier slot), a registered connection keeps passing the registration gate (imported from C03, else its PONG is never processed), and a pending deadline is not silently cancelled (the pinned tree violated this; '
                  'repaired by fix cd06724). Timing bounds ("no later than", "never while answering") are NOT decided.'),
        'note': TRUST + ' Timing and scheduler fairness are runtime quantities (declined).',
    },
    'C13': {
        'technique': 'offset-coordinate rule for re-sliced pieces of the line, exhaustive error-variant -> reply mapping by path-condition reachability, table agreement (verb literals / CommandId / Command / index / counter array / HELP), validator census per Command field, template decoding of every format string, idiom classification of the trailing-parameter split with a constructive counterexample',
        'level': ('Decides the structural necessary conditions of the parsing/framing property: total pre-execution error mapping '
                  '(421/461/472/501/696/417/ERROR), agreement of all command tables, 461 naming its own verb, validation before '
                  'execution with the right validator per field, every Command field built from the message parameters verbatim and the tokeniser given the decoded line itself, CR LF encoder constants and single socket writer, colon-introduced '
                  'that the name validators accept only non-empty names without space, comma or colon (the pinned tree accepted empty names and names with a space given as trailing parameter; repaired by fix 620a70d), trailing free text in every relay/reply template, the serialiser\'s colon condition, the offset arithmetic of the re-sliced prefix, and the delimiter idiom of the '
                  'tokeniser (the pinned tree split at a bare colon; repaired by fix e9ef753).'),
        'note': TRUST + ' The tokeniser\'s agreement with the grammar over ALL strings (blank runs, tabs, multi-byte text) is a runtime-value property and is not decided.',
    },
    'C05': {
        'technique': 'panic-obligation discharge over the whole non-start-up program: site census from the typed tree (cross-checked against the MIR panic-edge census), each site discharged by path-condition entailment, re-located parser/validator facts, invariants I1-I8 or a term-keyed justified table with structural rechecks; precondition lifting to callers with a kill rule; await census under lexical lock regions',
        'level': ('Decides that every unwrap/expect, index, str slice, integer operation, explicit panic and panicking library call '
                  'reachable from session code is discharged, that no socket/timer await happens under the state lock, that handler '
                  'errors do not end the serving loop and output is flushed after every event. The undischarged sites of the pinned tree '
                  '(KICK tail, repeated KICK victim, match_wildcard arithmetic/slicing, operators_count decrements, the I1-dependent '
                  'unwraps) were genuine defects; each is repaired by a fix: commit and recorded under `fixed` in known_findings.json.'),
        'note': TRUST + ' Assumes a sane system clock; detached timer/lookup tasks are observations; resource exhaustion and panics inside dependencies are not decided.',
    },
    'C14': {
        'technique': 'panic-obligation discharge restricted to the matcher/normaliser, structural loop-progress witnesses, comparison-unit (char vs byte) type rule, provenance of stored/announced masks, template check of the three normalisation cases, argument-role census of match_wildcard calls',
        'level': ('Decides the structural necessary conditions only: the comparison cannot abort (violated on the pinned tree; repaired '
                  'by fix 53e0ac2), its loops make progress, it walks characters rather than bytes, list masks are normalised before store/announce/compare with the three '
                  'documented completions, and every call site passes (mask, text). That the function implements glob semantics for '
                  'every pair of strings is NOT decided by this technique. No test of the characters of a mask other than has-a-wildcard guards a match_wildcard call.'),
        'note': TRUST + ' Glob semantics over all strings is a runtime-value property (declined, see DESIGN.md C14).',
    },
    'C19': {
        'technique': 'caller census of the counting registry functions; coupling analysis: finite enumeration of abstract paths (truth assignments of the atoms in the writers\' path conditions + pre-state flags) comparing counter deltas with the change of the counted predicate; field provenance for LUSERS/ISON/USERHOST; acquire/release pairing for connection slots',
        'level': ('Decides for every abstract path of every writer that operators_count / invisible_users_count / the WALLOPS set '
                  'move exactly with the flags they count (three pinned-tree defects, repaired by fixes 3dcbe6b and 0a7a464), that no other '
                  'function writes them, that max_users_count is the high-water mark, that each LUSERS/ISON/USERHOST field is the '
                  'stated term, and that connection slots are taken once, compared as previous < max, returned on refusal and '
                  'released exactly once by Drop of the only-here-constructed ConnState. The user count is the registry size: that every registered connection leaves the registry when it ends is imported (C03 R3.3/R3.6, C06 R6.1/R6.2), the channel count from C16 R16.2.'),
        'note': TRUST + ' Loop iterations of user MODE are treated as independent transitions (inductive step of the coupling invariant).',
    },
    'C16': {
        'technique': 'typed census of channel-map writers, departure funnel (caller census) and deletion-condition equivalence, structural shape check of the constructor literals (returned terms), field-wise agreement of the rank-list hand-over, sibling agreement for configured ranks',
        'level': ('Decides that channels are created only by JOIN and configuration loading and deleted only by '
                  'remove_user_from_channel (through which every departure goes, and which deletes exactly when the channel became empty and is not preconfigured), that a JOIN decided as creation always creates (C07 R7.1, with membership tests re-made inside the applying loop treated as loop-carried facts), that the stored modes of a configured channel are the value whose rank lists were moved out, that a user-created channel is exactly {creator as founder+operator, no topic, default '
                  'modes, empty lists, not preconfigured}, that configured channels carry topic/modes from their entry with '
                  'preconfigured=true (only there) and that configured ranks are granted on join. process_join stores the constructed channel unedited and writes no channel attribute.'),
        'note': TRUST + ' The creation condition is decided in C07 R7.1; TOML deserialisation is trusted.',
    },
    'C15': {
        'technique': 're-key census driven by the typed container classification, guard entailment/equivalence for every effect of the registered NICK branch, value-identity of the moved User, announcement provenance (binding order of the old source)',
        'level': ('Decides that an accepted NICK re-keys every nick-keyed live container (a container added later without a re-key is '
                  'reported), moves the same User value unchanged apart from its source string, records WHOWAS, renames in every own '
                  'channel with the rank record, announces the original message from the old source to all users, touches no counter, '
                  'and that a taken nick yields 433 and no effect. The WHOWAS helper only appends; the nick applied is the one the relayed NICK message names (C13 R13.14).'),
        'note': TRUST + ' NICK syntax validation is decided in C13.',
    },
    'C04': {
        'technique': 'typed who-may-write census on Channel.users / User.channels, caller census of the Channel mutators, pairing by path-condition equivalence under one write guard, sibling agreement over the rank methods, PART emission conditions, reader provenance',
        'level': ('Decides structurally that the membership relation is written only by the Channel mutators and the two User.channels '
                  'sites, always on both sides together, re-keyed completely on NICK, that rank flags and rank sets are kept in step by '
                  'all sibling methods, that PART is announced to every member (the departing one included) exactly when accepted, and '
                  'that NAMES/WHO/WHOIS read only that relation.'),
        'note': TRUST + ' The behavioural roster-reconstruction statement is the consequence of these structural facts; it is not observed.',
    },
    'C06': {
        'technique': 'must-pass-through over the connection task (event order + exits census), must-exist checks for quit.store per termination cause, typed container census with frozen classification, removal-site census over the inlined teardown, condition equivalence for channel deletion',
        'level': ('Decides that every path of the connection task reaches teardown, that each termination cause sets the quit flag, '
                  'that every nick-keyed live container (from the struct definitions; new ones must be classified) is cleaned with '
                  'the departing nick under no condition other than presence (and the member\'s own rank flag for a rank set), that exactly one WHOWAS record is kept, that channels vanish iff empty and not preconfigured, '
                  'and that teardown touches nothing keyed by another nick or a channel the user was not on.'),
        'note': TRUST + ' Depends on C02 R2.6 (the nick must be the connection\'s own; repaired on the pinned tree by fix 05cb942) and on C15 R15.2 (a nick change leaves no entry under the old nick: the teardown only clears the current one). Counters: C19.',
    },
    'C02': {
        'technique': 'who-may-write census on the user registry (typed receiver), check-and-insert under one write-guard region (lexical guard regions + query events), typestate entailment authenticated => registered, key-provenance of every User mutation',
        'level': ('Decides that the registry is written only by add_user/remove_user/process_nick, that each insert is dominated by '
                  'a "nick free" check made under the same write guard, that every handler mutates only users[own nick] (frozen '
                  'foreign-target table for INVITE/KILL/DIE), that the connection\'s nick setter stores its argument verbatim, and that no '
                  'connection acts on a nick it never registered (the three such places of the pinned tree - 433 path, teardown, dns arm '
                  'of the dns_lookup build - are repaired by fixes f454dd9, 05cb942, bb5c615). The handlers run only behind the registration gate (imports C03 R3.1).'),
        'note': TRUST + '',
    },
    'C12': {
        'technique': 'two-world emission equivalence: reply sites with path conditions; reachability (satisfiability) of each site under the hidden-object world vs the absent-object world',
        'level': ('Decides for every LIST/NAMES/WHO/WHOIS query form that the reply kinds reachable for a secret channel (requester '
                  'not a member) equal those for a non-existent channel, and that no per-user reply or name entry is reachable for '
                  'an invisible user sharing no channel with the requester. Of the two pinned-tree leaks, WHO #secret rows is repaired '
                  '(fix 03836f1); NAMES #secret (nothing) vs NAMES #absent (366) is a known finding.'),
        'note': TRUST + ' Side channels outside the four commands (PRIVMSG/MODE/TOPIC numerics, timing) are not decided.',
    },
    'C11': {
        'technique': 'crate-wide assignment census of oper/local_oper with guard entailment; clearing-condition entailment per user-mode letter; effect-key provenance in user MODE; guard entailment and refusal-condition equivalence for KILL/DIE/SQUIT/WALLOPS/STATS',
        'level': ('Decides that operator flags are raised only in OPER under (configured name, verified password, mask) for the '
                  'own user or copied from the configured defaults (the MODE +o/+O paths of the pinned tree are reported as known '
                  'findings), that user MODE acts only on the own nick and that MODE -<letter> clears a set flag under no further condition (status can always be given up), that operator commands act only under the operator '
                  'predicate and refuse otherwise, that KILL names the killer and WALLOPS fans out over exactly the +w set.'),
        'note': TRUST + ' wallops_users == users with +w is the coupling result of C19.',
    },
    'C08': {
        'technique': 'effect census of process_mode_channel keyed by mode letter; guard entailment per letter; effect/announcement pairing on the same path; parameter-cursor agreement between handler and validator per letter and sign; writer/enforcer/renderer field agreement',
        'level': ('Decides for every mode string that each channel-mode effect is guarded by the rank the statement assigns to '
                  'its letter, applies only to members (rank letters), is tied to its own field and sign, is appended to the '
                  'announcement with its stored parameter, that the announcement reaches all members, that missing privilege '
                  'yields 482 / non-member 442, that a parameter is consumed exactly where the validator counted one unless the actor '
                  'holds no privilege at all (no shifted parameters), and that each written field is read by the enforcing handler and the MODE query. Also: a later MODE query shows each parametrised letter with its own parameter (letters and parameters in the same order, R8.10).'),
        'note': TRUST + ' Enforcement semantics of each field are decided in C07/C09/C10/C12.',
    },
    'C09': {
        'technique': 'path-condition equivalence for the KICK selection, TOPIC write and INVITE record conditions; emission conditions per numeric; effect census; stale-fact (kill) rule for the KICK tail',
        'level': ('Decides that KICK selects exactly the victims the rank rules allow and removes/announces exactly those, that '
                  'TOPIC is written/cleared/announced iff member and (not +t or half-op+), that INVITE records and notifies '
                  'exactly the invitee under the stated condition, each refusal numeric under exactly its condition, and that '
                  'the rank predicates implement the lattice. The two KICK robustness defects of the pinned tree are repaired (fixes 5b4a0cc, 8b18274). The topic record holds the given text and setter verbatim (constructor fidelity); the invitation is used up exactly on the paths that enter the user into the channel (relative rule).'),
        'note': TRUST + ' "Grants one admission": the life cycle of the recorded invitation (used up by the admitted JOIN and by no refused one) is imported from C07 R7.3/R7.4.',
    },
    'C01': {
        'technique': 'send-site census with receiver/source/payload provenance terms, shape and writer census of the nick!user@host source string, guard entailment (sender skipped, prefix bit matches rank set), pairwise exclusivity of fan-outs, table agreement',
        'level': ('Decides the fan-out shape of PRIVMSG/NOTICE for every input: who can receive (member map / matching rank '
                  'set / addressed nick only), sender skipped, set-typed target loop, at most one copy per receiver per '
                  'target (violated on the pinned tree for multi-prefix targets; repaired by fix 4200c72), attribution and payload provenance, integrity of the source string (built from the current nick/user/host, recomputed by every setter), single '
                  'producer/consumer discipline of user queues, prefix/bit/set/flag table agreement.'),
        'note': TRUST + ' Membership truth of Channel.users is C04\'s structural result; delivery order and sockets are not decided.',
    },
    'C10': {
        'technique': 'path-condition extraction + truth-table equivalence for the delivery condition; guard entailment for every reply (!notice); emission coverage per refusal stage',
        'level': ('Decides that a channel message is fanned out iff ((!n && !s) || member) && !banned && (!m || voice+), that '
                  'every sender-directed reply of the handler is unreachable for NOTICE, that a refused PRIVMSG reaches exactly '
                  'one 404 (403/401 for unknown targets) and that 301 carries the recipient\'s away text.'),
        'note': TRUST + ' Not decided: client auto-replies; parse-level errors for malformed NOTICE.',
    },
    'C03': {
        'technique': 'guard-entailment over the dispatch (enum-aware truth table), assignment census of `authenticated`, typestate authenticated => registered, value-implies-condition check, must-reach checks on the failure path',
        'level': ('Decides structurally that only the six listed commands reach a handler on an unauthenticated '
                  'connection, that `authenticated` is written only in authenticate() and only with a value that '
                  'implies CAP ended + NICK + USER + mask match + the required password verified (user password '
                  'before server password), that a wrong/missing password reaches 464 and the quit flag and never '
                  'add_user, that a registration attempt losing its nick does not stay marked registered, and that pre-registration handlers do not touch shared state. The password checked is the PASS parameter as sent (imports C13 R13.13/R13.14 and C20 R20.11).'),
        'note': TRUST + ' Assumes argon2 verification is correct. Not decided: TLS/DNS effects on the source string.',
    },
    'C07': {
        'technique': 'path-condition extraction + truth-table equivalence against the stated admission formula; effect/emission census',
        'level': ('Decides structurally, for all inputs and histories, that process_join admits iff '
                  'key/ban/exception/invite/limit/membership/quota allow (formula equivalence over 14 atoms), that each '
                  'refusal stage emits its numeric, that every effect and announcement is guarded by the admission '
                  'condition and that an accepted JOIN updates both sides, consumes the invitation and is announced.'),
        'note': TRUST + ' Not decided: match_wildcard semantics (C14), concrete multi-client transcripts.',
    },
}

NOT_APPLICABLE = {
}
# every property is claimed at clause level; the clauses this technique family cannot decide are listed per check
# in level_note and in each evidence file (coverage.explanation), and in DESIGN.md section 5.
