"""C20 — Configuration is validated at start-up and governs behaviour as documented."""
from .common import *  # noqa: F401,F403
from .C03 import cx_census, census_walks, cases
from .C02 import base_fn


def P(n):
    return ('param', n)


CLI = P('cli')
# CLI option field -> config field it overrides
CLI_OVERRIDES = {'listen': 'listen', 'port': 'port', 'name': 'name', 'network': 'network', 'log_file': 'log_file', 'dns_lookup': 'dns_lookup',
                 'tls_cert_file': 'tls', 'tls_cert_key_file': 'tls'}
# derive-generated validator calls: struct -> [(validator, field)]
VALIDATORS = {
    'MainConfig': [('validate_contains', 'name'), ('validate_password_hash', 'password'), ('validate', 'operators'), ('validate', 'users'),
                   ('validate', 'channels')],
    'UserConfig': [('validate_username', 'name'), ('validate_username', 'nick'), ('validate_password_hash', 'password')],
    'OperatorConfig': [('validate_username', 'name'), ('validate_password_hash', 'password')],
    'ChannelConfig': [('validate_channel', 'name'), ('validate', 'modes')],
}
# where each documented setting is consumed: config field -> (function, how)
CONSUMERS = {
    'network': [('authenticate', 'RplWelcome001.networkname'), ('send_isupport', 'NETWORK token')],
    'name': [('authenticate', 'RplYourHost002.servername'), ('feed_msg', 'prefix'), ('process_ping', 'PONG')],
    'motd': [('process_motd', 'RplMotd372.motd')],
    'admin_info': [('process_admin', 'RplAdminLoc1257.info')],
    'admin_info2': [('process_admin', 'RplAdminLoc2258.info')],
    'admin_email': [('process_admin', 'RplAdminEmail259.email')],
    'info': [('process_whois', 'RplWhoIsServer312.server_info')],
    'max_joins': [('process_join', 'quota'), ('send_isupport', 'CHANLIMIT')],
    'default_user_modes': [('new', 'User::new modes')],
    'users': [('authenticate', 'configured users')],
    'operators': [('process_oper', 'operator table')],
    'channels': [('new_from_config', 'predefined channels')],
    'max_connections': [('register_conn_state', 'admission')],
    'ping_timeout': [('run_ping_waker', 'interval')],
    'pong_timeout': [('run_pong_timeout', 'deadline')],
    'password': [('authenticate', 'server password')],
    'listen': [('run_server', 'bind')],
    'port': [('run_server', 'bind')],
    'tls': [('run_server', 'TLS acceptor')],
    'dns_lookup': [('user_state_process', 'reverse lookup switch')],
    'log_file': [('initialize_logging', 'log sink')],
    'log_level': [('initialize_logging', 'filter')],
}


def mentions_cfg(w, fname):
    def has(t):
        if isinstance(t, tuple):
            if len(t) == 3 and t[0] == 'field' and t[2] == fname and (t[1] in (CONFIG, P('config'), field(P('main_state'), 'config'))
                                                                         or (t[1][0] == 'field' and t[1][2] == 'config')):
                return True
            return any(has(x) for x in t)
        if isinstance(t, dict):
            return any(has(x) for x in t.values())
        if isinstance(t, list):
            return any(has(x) for x in t)
        return False
    for e in w.events:
        if has(e.pc):
            return True
        for v in (e.data.get('args'), e.data.get('rhs'), e.data.get('recv'), e.data.get('value'), e.data.get('fields'), e.data.get('base'),
                  e.data.get('index'), e.data.get('l'), e.data.get('r')):
            if v is not None and has(v):
                return True
    return has(getattr(w, 'retval', None))


def reads_field(prog, fname, fld):
    """typed-tree search: some body of function `fname` (closures included) projects MainConfig.<fld>"""
    for d, b in prog.bodies.items():
        top = d.split('::{closure')[0]
        if not (top.endswith('::' + fname) or top == fname) or 'body' not in b:
            continue
        for n in ir.walk(b['body']):
            if n.get('k') == 'Field' and n.get('f') == fld and str(n.get('adt', '')).endswith('config::MainConfig'):
                return True
    return False


def check(cx):
    ck = cx.check
    ck.decides += [
        'R20.1 MainConfig::new returns Ok(config) only where validate() is Ok, validate_nicknames() holds and the TLS cert/key pair check passed; all CLI overrides are applied before validate(); main reaches run_server only with that value',
        'R20.2 the derive-generated validators call: name contains "."; validate_password_hash on all three password fields; validate_username / validate_channel on names; nested validation of operators, users, channels, modes; a hash is accepted iff it decodes to ARGON2_OUT_LEN bytes',
        'R20.3 hashing and verification share one Argon2 instance and salt; the verifier\'s PasswordHash takes params from that instance; -g prints argon2_hash_password(input) unchanged',
        'R20.4 every command-line option overrides its own configuration field',
        'R20.5 every documented setting is read by the code path that implements it; every MainConfig field has a reader outside config.rs',
        'R20.7 max_joins governs JOIN: compared as (running number of joined channels) < max_joins before every admission, 405 otherwise (shared rule with C07)',
        'R20.8 (imported) max_connections governs admission: one slot per attempt, compared as previous < max, given back on refusal, released once on drop (C19 R19.4)',
        'R20.9 predefined users and operators are looked up through tables mapping every configured name, verbatim, to its entry',
        'R20.10 (imported) predefined channels are built from their configuration entry and give the configured ranks on join (C16 R16.3)',
        'R20.6 (thorough, TLS builds) both accept loops hand the stream to the same user_state_process; the only behavioural read of the transport is is_secure() -> 671 in WHOIS',
    ]
    ck.does_not_decide += ['cryptographic exactness of "accepting exactly the password"', 'transcript equality of plain vs TLS sessions',
                           'TOML -> struct deserialisation (serde derive, trusted)']
    prog = cx.prog
    census = cx_census(cx)

    # ---------------------------------------------------------------- R20.1
    r1 = cx.rule('R20.1', 'validated or no server', floor=4, kind='required-guard')
    fn = cx.fn('new', 'config::MainConfig')
    w = cx.walk(fn, args=[CLI], key='c20')
    rv = w.retval
    vcall = [e for e in w.events if is_call(e, 'validate') and 'Validate' in (e.data.get('trait') or e.data['callee'])]
    ncall = [e for e in w.events if is_call(e, 'validate_nicknames')]
    if len(vcall) != 1 or len(ncall) != 1:
        raise AnchorLost('MainConfig::new: validate()/validate_nicknames() calls not found')
    cfg = vcall[0].data['args'][0]
    v_ok = Atom(('is', ('call', vcall[0].data['callee'], cfg), 'Ok'))
    n_ok = Atom(('call', ncall[0].data['callee'], cfg))
    cert, key = is_some(field(CLI, 'tls_cert_file')), is_some(field(CLI, 'tls_cert_key_file'))
    pair_ok = Or(And(cert, key), And(Not(cert), Not(key)))
    r1.instance('Ok(config) leaves of MainConfig::new')
    oks = [(c, l) for c, l in cases(rv) if l[0] == 'ok' and l[1] == cfg]
    other_ok = [(c, l) for c, l in cases(rv) if l[0] == 'ok' and l[1] != cfg]
    if not oks or other_ok:
        r1.violation('MainConfig::new|ok-value', 'MainConfig::new does not return the parsed-and-overridden configuration as its only Ok value', loc=fn)
    for c, l in oks:
        ok, m = entails(c, And(v_ok, n_ok, pair_ok))
        if not ok:
            r1.violation('MainConfig::new|unvalidated-ok', 'a configuration can be returned without validate() == Ok, validate_nicknames() and the '
                         'certificate/key pair check (%s)' % model_str(m), loc=fn)
    r1.instance('CLI overrides precede validate()')
    for e in w.events:
        if e.kind == 'assign' and not e.data.get('init') and root_of(e.data['lhs']) == root_of(cfg) and e.seq > vcall[0].seq:
            r1.violation('MainConfig::new|override-after-validate|%s' % path_of(e.data['lhs'])[-1], 'configuration field %s is changed after '
                         'validation' % path_of(e.data['lhs'])[-1], loc=cx.loc(e.node))
    r1.instance('main: run_server(MainConfig::new(cli)?)')
    mains = [d for d, _ in census_walks(cx) if d.startswith('main')]
    okm = False
    for d in mains:
        wm = cx.walk(d, key='census')
        rs = [e for e in wm.events if is_call(e, 'run_server')]
        for e in rs:
            a = e.data['args'][0]
            if a[0] == 'some_of' and a[1][0] == 'call' and a[1][1].endswith('MainConfig::new'):
                okm = True
    if not okm:
        r1.violation('main|unvalidated-config', 'the server is started with a configuration that did not come from MainConfig::new(..)?', loc='main')
    r1.instance('MainConfig literals only in Default')
    for f, e in census:
        if e.kind == 'adt' and e.data['adt'] == 'config::MainConfig' and short_fn(f) not in ('default',):
            r1.violation('%s|MainConfig-literal' % short_fn(f), 'a MainConfig value is built outside Default/deserialisation (bypasses validation)',
                         loc=cx.loc(e.node))

    # ---------------------------------------------------------------- R20.2
    r2 = cx.rule('R20.2', 'derive-generated validator calls', floor=12, kind='census')
    for st, wants in VALIDATORS.items():
        fv = cx.fn('validate_args', 'config::%s as validator::ValidateArgs' % st)
        wv = cx.walk(fv, args=[P('self'), P('args')], key='c20')
        calls = [e for e in wv.events if e.kind == 'call']
        for vname, fld in wants:
            r2.instance('%s.%s -> %s' % (st, fld, vname))
            hit = [e for e in calls if e.data['name'] == vname and any(mentions(a, field(P('self'), fld)) for a in e.data['args'])]
            if not hit:
                r2.violation('%s|%s|%s' % (st, fld, vname), 'configuration field %s.%s is not validated by %s' % (st, fld, vname), loc=fv)
            for e in hit:
                if vname == 'validate_contains' and e.data['args'][1:] != [('lit', '.')]:
                    r2.violation('MainConfig|name|contains-dot', 'the server name is not required to contain a dot', loc=fv)
                # a validator result must end up in the error set: its failure is merged/added
        fvv = cx.fn('validate', 'config::%s as validator::Validate' % st)
        wvv = cx.walk(fvv, args=[P('self')], key='c20')
        if not any(is_call(e, 'validate_args') for e in wvv.events):
            r2.violation('%s|validate-delegation' % st, '%s::validate does not run the generated checks' % st, loc=fvv)
    fh = cx.fn('validate_password_hash')
    wh = cx.walk(fh, args=[P('hash_str')])
    r2.instance('validate_password_hash: decodes and length == ARGON2_OUT_LEN')
    hv = wh.retval
    okh = False
    for c, l in cases(hv):
        if l == ('ok', ('unit',)):
            ats = [a for a in atoms(c)]
            okh = any(a[0] == 'eq' and ('static', 'utils::ARGON2_OUT_LEN') in a[1:] and 'len' in repr(a) for a in ats) and \
                any(a[0] == 'is' and a[2] == 'Ok' and 'b64_decode' in repr(a) for a in ats)
    if not okh:
        r2.violation('validate_password_hash|shape', 'a password hash is not accepted exactly when it base64-decodes to ARGON2_OUT_LEN bytes', loc=fh)

    # ---------------------------------------------------------------- R20.3
    r3 = cx.rule('R20.3', 'hash/verify agreement', floor=3, kind='provenance')
    fhp = cx.fn('argon2_hash_password')
    whp = cx.walk(fhp, args=[P('password')])
    hp = [e for e in whp.events if is_call(e, 'hash_password')]
    fvp = cx.fn('argon2_verify_password')
    wvp = cx.walk(fvp, args=[P('password'), P('hash_str')])
    vp = [e for e in wvp.events if is_call(e, 'verify_password')]
    A, S = ('static', 'utils::ARGON2'), ('static', 'utils::ARGON2_SALT')
    r3.instance('hash: ARGON2.hash_password(password, ARGON2_SALT)')
    if len(hp) != 1 or hp[0].data['args'][0] != A or hp[0].data['args'][1] != P('password') or not mentions(hp[0].data['args'][2], S):
        r3.violation('argon2_hash_password|instance', 'hashing does not use the shared Argon2 instance and salt', loc=fhp)
    r3.instance('verify: ARGON2.verify_password(password, PasswordHash{params from ARGON2, salt ARGON2_SALT, hash from input})')
    okv = len(vp) == 1 and vp[0].data['args'][0] == A and vp[0].data['args'][1] == P('password')
    lit_ = [e for e in wvp.events if e.kind == 'adt' and e.data['adt'].endswith('PasswordHash')]
    if okv and len(lit_) == 1:
        f = lit_[0].data['fields']
        okv = mentions(f.get('params'), A) and mentions(f.get('salt'), S) and mentions(f.get('hash'), P('hash_str')) \
            and 'Argon2id' in repr(f.get('algorithm')) and 'V0x13' in repr(f.get('version'))
    else:
        okv = False
    if not okv:
        r3.violation('argon2_verify_password|instance', 'verification does not use the same Argon2 instance, salt and parameters as hashing',
                     loc=fvp)
    r3.instance('-g prints argon2_hash_password(input)')
    okg = False
    for d in mains:
        wm = cx.walk(d, key='census')
        for e in wm.events:
            if e.kind == 'format' and any(isinstance(a, tuple) and a[0] == 'call' and a[1].endswith('argon2_hash_password') for a in e.data['args']):
                okg = True
    if not okg:
        r3.violation('main|gen-hash', 'the -g path does not print argon2_hash_password(<entered password>)', loc='main')

    # ---------------------------------------------------------------- R20.11 the clear text reaches the verifier as the client sent it
    # "accepting exactly the password it was generated from": besides the shared instance (R20.3) the bytes that are verified must be
    # the PASS / OPER parameter itself - not a trimmed, case-folded or truncated copy
    r11 = cx.rule('R20.11', 'the password is verified as sent', floor=4, kind='provenance')
    CONNP = field(('param', 'conn_state'), 'user_state', 'password')
    npw = 0
    for fn, e in census:
        if e.kind == 'assign' and not e.data.get('init') and isinstance(e.data['lhs'], tuple) and e.data['lhs'][:1] == ('field',) \
                and e.data['lhs'][2] == 'password' and 'ConnUserState' in repr(e.data.get('lhs_node', {}).get('adt', '')):
            npw += 1
            r11.instance('%s: connection password <- %s' % (base_fn(fn), show_term(e.data['rhs'])[:60]))
            for c_, leaf in term_cases(e.data['rhs']):
                if sat(And(e.pc, c_)) is None:
                    continue
                if leaf not in (('some', P('pass')), ('none',)):
                    r11.violation('%s|password-altered' % base_fn(fn), 'the connection password is stored as %s, not as the PASS parameter itself'
                                  % show_term(leaf)[:80], loc=cx.loc(e.node))
    if npw == 0:
        raise AnchorLost('no assignment to ConnUserState.password found')
    want_arg = {'authenticate': ('some_of', CONNP), 'process_oper': P('password')}
    nver = 0
    for fn, e in census:
        if e.kind == 'call' and e.data.get('local') and e.data['name'] in ('argon2_verify_password_async', 'argon2_verify_password'):
            b = base_fn(fn)
            if b not in want_arg:
                if b.startswith('argon2_verify_password_async'):
                    continue
                r11.violation('%s|unexpected-verifier-call' % b, 'a password is verified outside authenticate / process_oper', loc=cx.loc(e.node))
                continue
            nver += 1
            a0 = e.data['args'][0]
            r11.instance('%s verifies %s' % (b, show_term(a0)[:60]))
            if a0 != want_arg[b]:
                r11.violation('%s|verified-text' % b, '%s verifies %s instead of the password the client sent' % (b, show_term(a0)[:80]),
                              loc=cx.loc(e.node))
    if nver < 2:
        raise AnchorLost('verifier call sites of authenticate / process_oper not found')
    # the async wrapper hands both arguments through
    fa = cx.fn('argon2_verify_password_async')
    inner = [b_ for b_ in prog.bodies if b_.startswith(fa + '::{closure') ]
    thru = []
    for b_ in [fa] + inner:
        wa = cx.walk(b_, key='census')
        thru += [e for e in wa.events if e.kind == 'call' and e.data.get('local') and e.data['name'] == 'argon2_verify_password']
    r11.instance('argon2_verify_password_async -> argon2_verify_password(password, hash_str)')
    if not thru or any(e.data['args'] != [P('password'), P('hash_str')] for e in thru):
        r11.violation('argon2_verify_password_async|arguments', 'the async wrapper does not hand (password, hash) through unchanged', loc=fa)

    # ---------------------------------------------------------------- R20.4
    r4 = cx.rule('R20.4', 'CLI override census', floor=7, kind='table-agreement')
    # (`field |= option` is the or-override of a switch: an assignment like `field = field || option`)
    assigns = [e for e in w.events if e.kind in ('assign', 'assignop') and not e.data.get('init') and root_of(e.data['lhs']) == root_of(cfg)]
    for cf, target in CLI_OVERRIDES.items():
        r4.instance('--%s -> config.%s' % (cf, target))
        hit = [e for e in assigns if path_of(e.data['lhs'])[-1:] == [target] and mentions(e.data['rhs'], field(CLI, cf))]
        if not hit:
            r4.violation('MainConfig::new|cli|%s' % cf, 'command-line option %s does not override configuration field %s' % (cf, target), loc=fn)
    for e in assigns:
        tgt = path_of(e.data['lhs'])[-1]
        srcs = [cf for cf in CLI_OVERRIDES if mentions(e.data['rhs'], field(CLI, cf))]
        if srcs and any(CLI_OVERRIDES[cf] != tgt for cf in srcs):
            r4.violation('MainConfig::new|cli-cross|%s' % tgt, 'configuration field %s is overridden from option(s) %s' % (tgt, srcs), loc=cx.loc(e.node))
    opens = [e for e in w.events if is_call(e, 'open')]
    r4.instance('--config selects the file that is read')
    if not opens or not mentions(opens[0].data['args'][0], field(CLI, 'config')):
        r4.violation('MainConfig::new|cli|config', 'the configuration file path does not come from --config', loc=fn)

    # ---------------------------------------------------------------- R20.5
    r5 = cx.rule('R20.5', 'settings are consumed where documented', floor=20, kind='provenance')
    mc = prog.adts['config::MainConfig']
    fields = [f['name'] for f in mc['variants'][0]['fields']]
    walks = {d: wk for d, wk in census_walks(cx)}
    for fld in fields:
        if fld not in CONSUMERS:
            r5.violation('MainConfig.%s|needs-classification' % fld, 'configuration field %s has no documented consumer in the table' % fld, loc='config::MainConfig')
            continue
        for fname, how in CONSUMERS[fld]:
            r5.instance('config.%s -> %s (%s)' % (fld, fname, how))
            cands = [wk for d, wk in walks.items() if short_fn(d.split('::{closure')[0]) == fname or d.split('::{closure')[0].endswith('::' + fname)]
            if not cands:
                r5.violation('%s|consumer-missing|%s' % (fname, fld), 'function %s (consumer of config.%s) not found' % (fname, fld), loc=fname)
                continue
            if not any(mentions_cfg(wk, fld) for wk in cands) and not reads_field(prog, fname, fld):
                r5.violation('%s|does-not-read|%s' % (fname, fld), 'config.%s no longer governs %s (%s does not read it)' % (fld, how, fname), loc=fname)
    # specific field provenance of the welcome burst
    fa = cx.fn('authenticate')
    wa = cx.walk(fa, args=[SELF, CONN], key='c02')
    reps = {r['variant']: r for e, r in replies(wa)}
    r5.instance('001 networkname = config.network; 002/004 servername = config.name')
    ok = reps.get('RplWelcome001', {}).get('fields', {}).get('networkname') == field(CONFIG, 'network') and \
        reps.get('RplYourHost002', {}).get('fields', {}).get('servername') == field(CONFIG, 'name') and \
        reps.get('RplMyInfo004', {}).get('fields', {}).get('servername') == field(CONFIG, 'name')
    if not ok:
        r5.violation('authenticate|welcome-fields', 'the welcome burst does not show the configured network / server name', loc=fa)
    fm = cx.fn('process_motd')
    wm = cx.walk(fm, args=[SELF, CONN, P('target')])
    mr = {r['variant']: r for e, r in replies(wm)}
    if mr.get('RplMotd372', {}).get('fields', {}).get('motd') != field(CONFIG, 'motd'):
        r5.violation('process_motd|motd-field', 'MOTD does not show the configured text', loc=fm)

    # ---------------------------------------------------------------- R20.8 max_connections (imported)
    r8 = cx.rule('R20.8', 'max_connections governs admission (imported)', floor=1, kind='dependency')
    depends(cx, r8, 'C19', ('R19.4',), 'connection slots are taken, compared, returned on refusal and released once')

    # ---------------------------------------------------------------- R20.9 predefined users / operators are found under their names
    r9 = cx.rule('R20.9', 'configured users / operators lookup tables', floor=2, kind='provenance')
    rule_config_index_tables(cx, r9)

    # ---------------------------------------------------------------- R20.10 predefined channels (imported)
    r10 = cx.rule('R20.10', 'predefined channels are built from their configuration entry (imported)', floor=1, kind='dependency')
    # (the MODE-time add_*/remove_* pairs and the leaving side are not part of "built from the entry and granted on join")
    depends(cx, r10, 'C16', ('R16.3', 'R16.3b'), 'predefined channels: topic and modes from the entry, rank lists moved to the defaults and granted on join',
            only=r'^(?!Channel::remove_)(?!Channel::add_(operator|half_operator|voice|founder|protected)\|)')

    # ---------------------------------------------------------------- R20.7 max_joins
    from .C07 import rule_quota
    r7 = cx.rule('R20.7', 'max_joins governs JOIN', floor=3, kind='required-guard')
    rule_quota(cx, r7)

    # ---------------------------------------------------------------- R20.6 TLS
    r6 = cx.rule('R20.6', 'TLS changes the transport only', floor=1, kind='wiring')
    for cfgname, pg in cx.progs.items():
        cen = cx_census(cx, pg)
        if cfgname in ('tls_rustls', 'tls_openssl'):
            tls_fn = [d for d in pg.bodies if d.endswith('user_state_process_tls')]
            r6.instance('[%s] TLS accept path -> user_state_process' % cfgname)
            okt = False
            for f, e in cen:
                if short_fn(f.replace('::{closure#0}', '')) == 'user_state_process_tls' and is_call(e, 'user_state_process'):
                    okt = 'SecureStream' in repr(e.data['args'][1])
            if not tls_fn or not okt:
                r6.violation('user_state_process_tls|delegation|%s' % cfgname, '[%s] the TLS accept path does not hand the stream to the common '
                             'user_state_process' % cfgname, loc='user_state_process_tls')
        secure_reads = [(f, e) for f, e in cen if is_call(e, 'is_secure') and e.data.get('local')]
        r6.instance('[%s] readers of is_secure(): %s' % (cfgname, sorted({short_fn(f.replace('::{closure#0}', '')) for f, e in secure_reads})))
        for f, e in secure_reads:
            b = short_fn(f.replace('::{closure#0}', ''))
            if b not in ('process_whois', 'is_secure'):
                r6.violation('%s|reads-transport|%s' % (b, cfgname), '[%s] %s behaves differently depending on the transport' % (cfgname, b), loc=pg.loc(e.node))
