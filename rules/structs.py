"""Shared structural model of the state containers (used by C04, C06, C15, C16, C19).

* the frozen classification of every nick-/channel-keyed container field (R6.3): a new
  HashMap<String,_>/HashSet<String> field must be classified by a human before the checks pass;
* the rank set <-> rank flag table and the sibling checks over Channel::add_*/remove_*,
  Channel::add_user, Channel::remove_user, ChannelModes::rename_user.
"""
from .common import *  # noqa: F401,F403


def P(n):
    return ('param', n)


ME = P('self')
NICK = P('nick')

RANK_SETS = ['operators', 'half_operators', 'voices', 'founders', 'protecteds']
RANK_FLAG = {'operators': 'operator', 'half_operators': 'half_oper', 'voices': 'voice', 'founders': 'founder',
             'protecteds': 'protected'}
RANK_METHOD = {'operators': 'operator', 'half_operators': 'half_operator', 'voices': 'voice', 'founders': 'founder',
               'protecteds': 'protected'}

# (struct path, field) -> class
CONTAINERS = {
    ('state::structs::VolatileState', 'users'): 'nick-live',
    ('state::structs::VolatileState', 'wallops_users'): 'nick-live',
    ('state::structs::VolatileState', 'nick_histories'): 'nick-history',
    ('state::structs::VolatileState', 'channels'): 'channel-keyed',
    ('state::structs::Channel', 'users'): 'nick-live',
    ('state::structs::Channel', 'ban_info'): 'mask-keyed',
    ('config::ChannelModes', 'operators'): 'nick-live',
    ('config::ChannelModes', 'half_operators'): 'nick-live',
    ('config::ChannelModes', 'voices'): 'nick-live',
    ('config::ChannelModes', 'founders'): 'nick-live',
    ('config::ChannelModes', 'protecteds'): 'nick-live',
    ('config::ChannelModes', 'ban'): 'mask-keyed',
    ('config::ChannelModes', 'exception'): 'mask-keyed',
    ('config::ChannelModes', 'invite_exception'): 'mask-keyed',
    ('state::structs::User', 'channels'): 'channel-keyed',      # the user's own memberships (removed with the user)
    ('state::structs::User', 'invited_to'): 'channel-keyed',    # the user's own pending invitations (removed with the user)
    ('state::structs::ChannelDefaultModes', 'operators'): 'configuration',
    ('state::structs::ChannelDefaultModes', 'half_operators'): 'configuration',
    ('state::structs::ChannelDefaultModes', 'voices'): 'configuration',
    ('state::structs::ChannelDefaultModes', 'founders'): 'configuration',
    ('state::structs::ChannelDefaultModes', 'protecteds'): 'configuration',
    ('state::MainState', 'user_config_idxs'): 'configuration',
    ('state::MainState', 'oper_config_idxs'): 'configuration',
}
STATE_STRUCTS = ['state::structs::VolatileState', 'state::structs::Channel', 'config::ChannelModes', 'state::structs::User',
                 'state::structs::ChannelDefaultModes', 'state::MainState']


def string_keyed(ty):
    t = ty.replace('std::option::Option<', '')
    return t.startswith('std::collections::HashMap<std::string::String') or t.startswith('std::collections::HashSet<std::string::String') \
        or t.startswith('std::collections::BTreeMap<std::string::String') or t.startswith('std::collections::BTreeSet<std::string::String')


def container_census(cx, rule):
    """every String-keyed container field of the state structs must be classified; returns {(struct, field): class}"""
    prog = cx.prog
    found = {}
    for sp in STATE_STRUCTS:
        adt = prog.adts.get(sp)
        if adt is None:
            raise AnchorLost('struct %s not found' % sp)
        for f in adt['variants'][0]['fields']:
            if string_keyed(f['ty']):
                k = (sp, f['name'])
                cls = CONTAINERS.get(k)
                rule.instance('%s.%s : %s -> %s' % (sp.split('::')[-1], f['name'], f['ty'][:50], cls))
                if cls is None:
                    rule.violation('%s.%s|needs-classification' % (sp.split('::')[-1], f['name']),
                                   'new String-keyed container %s.%s (%s): it must be classified (nick-keyed containers have to be '
                                   'cleaned on teardown and re-keyed on NICK)' % (sp, f['name'], f['ty']), loc=sp)
                else:
                    found[k] = cls
    return found


def live_nick_containers(found):
    return [k for k, c in found.items() if c == 'nick-live']


def removal_sites(w, prog, key, roots):
    """{container field name: [events]} for remove-effects whose key argument is `key`"""
    out = {}
    for e, x in effects(w, prog, roots):
        if x['op'] == 'remove' and x['args'][:1] == [key]:
            p = path_of(x['place'])
            names = [n for n in p if n != '[]']
            if names:
                out.setdefault(names[-1], []).append(e)
    return out


def check_rank_siblings(cx, rule):
    """the ten add_*/remove_* methods, Channel::remove_user, Channel::add_user, ChannelModes::rename_user (R4.4)"""
    prog = cx.prog
    for setname in RANK_SETS:
        flagname = RANK_FLAG[setname]
        for add in (True, False):
            mname = ('add_' if add else 'remove_') + RANK_METHOD[setname]
            fn = cx.fn(mname, 'structs::Channel')
            w = cx.walk(fn, args=[ME, NICK], key='sib')
            effs = [(e, x) for e, x in effects(w, prog, (ME,)) if x['op'] not in ('take', 'get_mut')]
            rule.instance('Channel::%s touches (modes.%s, users[nick].%s)' % (mname, setname, flagname))
            setops = [(e, x) for e, x in effs if x['op'] in ('insert', 'remove')]
            writeback = [(e, x) for e, x in effs if x['op'] in ('assign',) + ENSURE_SOME and path_of(x['place'])[-2:] == ['modes', setname]]
            flags = [(e, x) for e, x in effs if x['op'] == 'assign' and x['place'] == field(('idx', field(ME, 'users'), NICK), flagname)]
            other = [(e, x) for e, x in effs if (e, x) not in setops + writeback + flags]
            ok = (len(setops) == 1 and setops[0][1]['op'] == ('insert' if add else 'remove')
                  and setname in path_of(setops[0][1]['place']) and setops[0][1]['args'][:1] == [NICK]
                  and len(writeback) == 1 and len(flags) == 1
                  and sym.as_formula(flags[0][1]['value']) == (T if add else F) and not other
                  and all(e.pc == T for e, _ in effs))
            if not ok:
                rule.violation('Channel::%s|sibling' % mname, 'Channel::%s does not update exactly the pair (modes.%s %s nick, users[nick].%s = %s)'
                               % (mname, setname, 'insert' if add else 'remove', flagname, str(add).lower()), loc=fn)
    # Channel::remove_user: all five removers then the entry
    fn = cx.fn('remove_user', 'structs::Channel')
    w = cx.walk(fn, args=[ME, NICK], key='sib')
    effs = effects(w, prog, (ME,))
    called = [x['op'] for e, x in effs if x['op'].startswith('remove_') and x['args'][:1] == [NICK] and x['place'] == ME]
    rule.instance('Channel::remove_user calls %d removers then users.remove(nick)' % len(called))
    want = {'remove_' + RANK_METHOD[s] for s in RANK_SETS}
    last = [x for e, x in effs if x['op'] == 'remove' and x['place'] == field(ME, 'users') and x['args'][:1] == [NICK]]
    if set(called) != want or len(last) != 1:
        rule.violation('Channel::remove_user|sibling', 'Channel::remove_user does not clear all five rank sets (%s missing) and the member entry'
                       % sorted(want - set(called)), loc=fn)
    # ... each of them whenever the member holds that rank (flag <-> set agreement is what the other siblings maintain), the entry
    # whenever the nick is a member
    member = has(field(ME, 'users'), NICK)
    for e, x in effs:
        if x['args'][:1] != [NICK]:
            continue
        if x['op'] == 'remove' and x['place'] == field(ME, 'users'):
            rule.instance('Channel::remove_user drops the member entry of every member')
            if not entails(member, e.pc)[0]:
                rule.violation('Channel::remove_user|entry-condition', 'the member entry is not removed for every member (condition %s)'
                               % show(e.pc)[:80], loc=cx.loc(e.node))
        elif x['op'] in want and x['place'] == ME:
            setname = [s for s in RANK_SETS if 'remove_' + RANK_METHOD[s] == x['op']][0]
            fl = RANK_FLAG[setname]
            assume = And(member, *[Atom(a) for a in atoms(e.pc) if a[0] == 'flag' and path_of(a[1])[-1:] == [fl]])
            rule.instance('Channel::remove_user clears %s for every member flagged %s' % (setname, fl))
            if not entails(assume, e.pc)[0]:
                rule.violation('Channel::remove_user|%s-condition' % setname, 'a departing member flagged %s is not always taken out of '
                               'modes.%s (condition %s): the stale entry keeps receiving prefix-addressed messages under that nick'
                               % (fl, setname, show(e.pc)[:80]), loc=cx.loc(e.node))
    # Channel::add_user: five blocks
    fn = cx.fn('add_user', 'structs::Channel')
    UN = P('user_nick')
    w = cx.walk(fn, args=[ME, UN], key='sib')
    for setname in RANK_SETS:
        cond = has(field(ME, 'default_modes', setname), UN)
        ins = [e for e, x in effects(w, prog, (ME,)) if x['op'] == 'insert' and setname in path_of(x['place']) and x['args'][:1] == [UN]
               and 'default_modes' not in path_of(x['place'])]
        fl = [e for e in w.events if e.kind == 'assign' and not e.data.get('init') and e.data['lhs'][0] == 'field'
              and e.data['lhs'][2] == RANK_FLAG[setname] and root_of(e.data['lhs']) != ME and sym.as_formula(e.data['rhs']) == T]
        rule.instance('Channel::add_user block for %s' % setname)
        ok = (len(ins) == 1 and len(fl) == 1 and equivalent(ins[0].pc, cond)[0] and equivalent(fl[0].pc, cond)[0])
        if not ok:
            rule.violation('Channel::add_user|block-%s' % setname, 'Channel::add_user does not give a configured %s both the flag %s and the '
                           'modes.%s entry' % (setname, RANK_FLAG[setname], setname), loc=fn)
    ent = [x for e, x in effects(w, prog, (ME,)) if x['op'] == 'insert' and x['place'] == field(ME, 'users') and x['args'][:1] == [UN]]
    rule.instance('Channel::add_user inserts the member entry')
    if len(ent) != 1:
        rule.violation('Channel::add_user|entry', 'Channel::add_user does not insert exactly one member entry for the joining nick', loc=fn)
    # ChannelModes::rename_user: a block per set
    fn = cx.fn('rename_user', 'ChannelModes')
    OLD, NEW = P('old_nick'), P('nick')
    w = cx.walk(fn, args=[ME, OLD, NEW], key='sib')
    effs = effects(w, prog, (ME,))
    for setname in RANK_SETS:
        rem = [e for e, x in effs if x['op'] == 'remove' and setname in path_of(x['place']) and x['args'][:1] == [OLD]]
        ins = [e for e, x in effs if x['op'] == 'insert' and setname in path_of(x['place']) and x['args'][:1] == [NEW]]
        rule.instance('ChannelModes::rename_user block for %s' % setname)
        if len(rem) != 1 or len(ins) != 1 or not entails(ins[0].pc, rem[0].pc)[0]:
            rule.violation('ChannelModes::rename_user|block-%s' % setname, 'a nick change does not move the %s entry (remove old / insert new '
                           'if it was present)' % setname, loc=fn)
        elif len([a for a in atoms(ins[0].pc)]) != len([a for a in atoms(rem[0].pc)]) + 1:
            rule.violation('ChannelModes::rename_user|block-%s-cond' % setname, 'the new nick is inserted into %s under an unexpected '
                           'condition' % setname, loc=fn)
