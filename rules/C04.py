"""C04 — Channel membership is one consistent relation that follows the history."""
from .common import *  # noqa: F401,F403
from .structs import P, ME, check_rank_siblings, RANK_SETS
from .C03 import cx_census

MEMBER_MAP_TY = 'HashMap<std::string::String, state::structs::ChannelUserModes>'


def base_fn(fn):
    return short_fn(fn.replace('::{closure#0}', ''))


def check(cx):
    ck = cx.check
    ck.decides += [
        'R4.1 who may write the relation: Channel.users only inside Channel::{new_on_user_join,add_user,rename_user,remove_user,add_*/remove_*}; User.channels only in process_join (insert) and remove_user_from_channel (remove); the Channel mutators have exactly the expected callers',
        'R4.2 both sides are written together: JOIN inserts user-side and channel-side under one guard; remove_user_from_channel removes both; session teardown visits every channel of the departing user',
        'R4.3 a nick change re-keys the member entry with its value and the rank sets in every channel of the user',
        'R4.4 rank flag <-> rank set sibling agreement over the ten add_*/remove_* methods, add_user, remove_user, ChannelModes::rename_user',
        'R4.5 PART is announced to all members including the departing one before the removal, exactly for accepted parts; 442/403 otherwise',
        'R4.6 NAMES / WHO <channel> / WHOIS(319) read membership only from Channel.users and User.channels',
        'R4.7 JOIN echo/announcement and KICK lines are sent under exactly the condition of the membership change they report (relative to the handler\'s own decision); NICK re-key/announcement and disconnect clean-up imported from C15 R15.2/R15.3 and C06 R6.3/R6.5',
    ]
    ck.does_not_decide += ['that a concrete announcement-derived roster equals a NAMES snapshot for a concrete history (behavioural consequence of R4.1-R4.5)']
    prog = cx.prog
    census = cx_census(cx)

    # ---------------------------------------------------------------- R4.1
    r1 = cx.rule('R4.1', 'who may write the membership relation', floor=10, kind='who-may-write')
    chan_writers = {'add_user', 'rename_user', 'remove_user', 'new_on_user_join'}
    for fn, e in census:
        if e.kind == 'call' and MEMBER_MAP_TY in (e.data.get('recv_ty') or '') and e.data['name'] in MUTATORS:
            b = base_fn(fn)
            r1.instance('%s: Channel.users.%s' % (b, e.data['name']))
            if b not in chan_writers or 'structs::Channel' not in fn:
                r1.violation('%s|writes-Channel.users|%s' % (b, e.data['name']), 'the channel member map is changed (%s) in %s'
                             % (e.data['name'], b), loc=cx.loc(e.node))
        if e.kind == 'call' and e.data['name'] in MUTATORS and 'HashSet<std::string::String>' in (e.data.get('recv_ty') or ''):
            recv = e.data['args'][0]
            p = path_of(recv)
            if p[-1:] == ['channels'] and 'default_modes' not in p:
                b = base_fn(fn)
                r1.instance('%s: User.channels.%s' % (b, e.data['name']))
                okw = (b == 'process_join' and e.data['name'] == 'insert') or (b == 'remove_user_from_channel' and e.data['name'] == 'remove')
                if not okw:
                    r1.violation('%s|writes-User.channels|%s' % (b, e.data['name']), 'a user\'s channel set is changed (%s) in %s'
                                 % (e.data['name'], b), loc=cx.loc(e.node))
    rule_membership_funnel(cx, r1)

    # ---------------------------------------------------------------- R4.7 imported
    r7 = cx.rule('R4.7', 'membership changes of JOIN / KICK / NICK / disconnect', floor=8, kind='dependency')
    from .C07 import rule_join_relative
    from .C09 import rule_kick_relative
    rule_join_relative(cx, r7)
    rule_kick_relative(cx, r7)
    depends(cx, r7, 'C15', ('R15.2', 'R15.3'), 'NICK re-keys every membership and is announced',
            only=r'rekey\|(member-entries|Channel)|announcement')
    # the announcements are the relayed original messages: what they name must be what the handler applied (the roster a member
    # reconstructs from them is the one NAMES shows)
    depends(cx, r7, 'C13', ('R13.14',), 'the nick / channel / victim a relayed message names is the one the handler applied',
            only=r'\|(NICK|JOIN|PART|KICK)\.')
    depends(cx, r7, 'C13', ('R13.5',), 'NAMES lines and announcements reach the socket whole (buffer and encoder do not alter them)',
            only=r'line-altered|IRCLinesCodec::encode')
    depends(cx, r7, 'C03', ('R3.3', 'R3.6'), 'a registered connection stays marked as such, so its disconnect is cleaned up',
            only=r'writes-authenticated|authenticate-reentry')
    depends(cx, r7, 'C02', ('R2.1',), 'only the teardown takes a user out of the registry', only=r'registry-remove|calls-remove_user')
    depends(cx, r7, 'C06', ('R6.3', 'R6.5'), 'a disconnect removes the user from every roster and nobody else',
            only=r'(not-cleaned|conditional-clean)\|Channel|foreign-effect|no-registry-removal')

    # ---------------------------------------------------------------- R4.2
    r2 = cx.rule('R4.2', 'both sides written together', floor=3, kind='pairing')
    fj = cx.fn('process_join')
    CHP, KEYS = P('channels'), P('keys')
    wj = cx.walk(fj, args=[SELF, CONN, CHP, KEYS], key='c07')
    C = ('elem', CHP)
    me_ = user(CONN_NICK)
    effs = effects(wj, prog)
    uside = [(e, x) for e, x in effs if x['op'] == 'insert' and x['place'] == field(me_, 'channels') and x['args'][:1] == [C]]
    cside = [(e, x) for e, x in effs if (x['op'] == 'add_user' and x['place'] == chan(C) and x['args'][:1] == [CONN_NICK]) or
             (x['op'] == 'insert' and x['place'] == CHANNELS and x['args'][:1] == [C])]
    r2.instance('JOIN: user-side insert <=> channel-side insert/create')
    # the same insert may be written once before the branch or once in each branch
    kinds = {x['op'] for _, x in cside}
    if not uside or kinds != {'add_user', 'insert'}:
        r2.violation('process_join|pairing-sites', 'JOIN does not have a user-side insert and the two channel-side alternatives '
                     '(enter an existing channel / create one)', loc=fj)
    else:
        ok, m = equivalent(Or(*[e.pc for e, _ in uside]), Or(*[e.pc for e, _ in cside]))
        excl = all(sat(And(a[0].pc, b[0].pc)) is None for i, a in enumerate(cside) for b in cside[i + 1:]) and \
            all(sat(And(a[0].pc, b[0].pc)) is None for i, a in enumerate(uside) for b in uside[i + 1:])
        same_guard = all(set(uside[0][0].guards) == set(e.guards) and any(g[0] == 'write' for g in e.guards) for e, _ in cside + uside)
        if not ok or not excl or not same_guard:
            r2.violation('process_join|pairing', 'JOIN can write one side of the membership without the other (or outside one write guard): %s'
                         % (m,), loc=cx.loc(uside[0][0].node))
    fvr = cx.fn('remove_user', 'VolatileState')
    wv = cx.walk(fvr, args=[STATE, P('nick')], key='c04')
    visits = [e for e in wv.events if is_call(e, 'remove_user_from_channel')]
    r2.instance('teardown visits every channel of the departing user')
    okv = False
    for e in visits:
        a = e.data['args']
        if a[2] == P('nick') and a[1][0] == 'elem' and path_of(a[1][1])[-1:] == ['channels'] and 'remove' in repr(a[1][1]):
            extra = [x for x in atoms(e.pc) if not (x[0] == 'is' and x[2] == 'Some')]
            okv = not extra
    if not okv:
        r2.violation('VolatileState::remove_user|visits', 'a departing user is not removed from every channel in its own channel set', loc=fvr)
    r2.instance('remove_user_from_channel removes both sides (checked in detail by C06 R6.4)')

    # ---------------------------------------------------------------- R4.3
    r3 = cx.rule('R4.3', 'rename is a bijection on keys', floor=3, kind='pairing')
    fr = cx.fn('rename_user', 'structs::Channel')
    OLD, NEW = P('old_nick'), P('nick')
    wr = cx.walk(fr, args=[ME, OLD, NEW], key='c04')
    reffs = effects(wr, prog, (ME,))
    rem = [(e, x) for e, x in reffs if x['op'] == 'remove' and x['place'] == field(ME, 'users') and x['args'][:1] == [OLD]]
    ins = [(e, x) for e, x in reffs if x['op'] == 'insert' and x['place'] == field(ME, 'users') and x['args'][:1] == [NEW]]
    mren = [(e, x) for e, x in reffs if x['op'] == 'rename_user' and x['place'] == field(ME, 'modes') and x['args'] == [OLD, NEW]]
    r3.instance('Channel::rename_user: remove(old), insert(new, removed value), modes.rename_user(old,new)')
    ok = len(rem) == 1 and len(ins) == 1 and len(mren) == 1 and 'remove' in repr(ins[0][1]['args'][1]) and mentions(ins[0][1]['args'][1], OLD) \
        and all(e.pc == T for e, _ in rem + ins + mren)
    if not ok:
        r3.violation('Channel::rename_user|shape', 'Channel::rename_user does not move the member entry (with its rank record) and the rank '
                     'sets from the old to the new nick', loc=fr)
    fn_ = cx.fn('process_nick')
    wn = cx.walk(fn_, args=[SELF, CONN, P('nick'), P('msg')], key='c02')
    ren = [(e, x) for e, x in effects(wn, prog) if x['op'] == 'rename_user' and (e.data.get('callee') or '').endswith('structs::Channel::rename_user')]
    r3.instance('process_nick renames in every channel of the user')
    okn = False
    for e, x in ren:
        pl = x['place']
        if pl[0] == 'idx' and pl[1] == CHANNELS and pl[2][0] == 'elem' and path_of(pl[2][1])[-1:] == ['channels'] \
                and x['args'] == [CONN_NICK, P('nick')]:
            okn = True
    if not okn:
        r3.violation('process_nick|channel-rename', 'a nick change does not rename the user in every channel of its own channel set', loc=fn_)
    r3.instance('loop is over the channel set of the user being renamed')
    for e, x in ren:
        loopc = [l[2] for l in e.loops if l[2] is not None]
        if not loopc or not ('remove' in repr(loopc[-1]) and mentions(loopc[-1], CONN_NICK)):
            r3.violation('process_nick|channel-rename-loop', 'the rename loop does not range over the renamed user\'s channel set', loc=cx.loc(e.node))

    # ---------------------------------------------------------------- R4.4
    r4 = cx.rule('R4.4', 'rank flag <-> rank set siblings', floor=20, kind='sibling-agreement')
    check_rank_siblings(cx, r4)
    fnew = cx.fn('new_for_created_channel')
    wnew = cx.walk(fnew, args=[])
    fmodes = cx.fn('new_for_channel')
    wmodes = cx.walk(fmodes, args=[P('user_nick')])
    r4.instance('creator flags == creator sets')
    v = wnew.retval
    flags_true = set()
    if v and v[0] == 'adt':
        flags_true = {k for k, val in v[3] if sym.as_formula(val) == T}
    mv = wmodes.retval
    sets_init = set()
    if mv and mv[0] == 'adt':
        sets_init = {k for k, val in mv[3] if val[0] == 'some' and mentions(val, P('user_nick'))}
    want_sets = {s for s in RANK_SETS if {'operators': 'operator', 'half_operators': 'half_oper', 'voices': 'voice', 'founders': 'founder',
                                          'protecteds': 'protected'}[s] in flags_true}
    if sets_init != want_sets or not flags_true:
        r4.violation('Channel::new_on_user_join|creator-rank', 'the creator\'s rank flags %s do not match the rank sets initialised for a new '
                     'channel %s' % (sorted(flags_true), sorted(sets_init)), loc=fmodes)

    # ---------------------------------------------------------------- R4.5 PART
    r5 = cx.rule('R4.5', 'PART announcement and refusals', floor=4, kind='equivalence')
    fp = cx.fn('process_part')
    CHS, REASON = P('channels'), P('reason')
    wp = cx.walk(fp, args=[SELF, CONN, CHS, REASON], key='c04')
    c = ('elem', CHS)
    ch = chan(c)
    members = field(ch, 'users')
    exists, member = has(CHANNELS, c), has(members, CONN_NICK)
    D = And(exists, member)
    rm = [(e, x) for e, x in effects(wp, prog) if x['op'] == 'remove_user_from_channel']
    r5.instance('removal exactly for accepted parts')
    if len(rm) != 1 or rm[0][1]['args'] != [c, CONN_NICK] or not equivalent(rm[0][0].pc, D)[0]:
        r5.violation('process_part|removal', 'PART does not remove (this channel, own nick) exactly when the user is on the channel', loc=fp)
    for e, x in effects(wp, prog):
        if (e, x) not in rm and x['op'] not in ('get_mut',) and path_of(x['place'])[-1:] != ['last_activity']:
            r5.violation('process_part|other-effect|%s' % x['op'], 'PART changes other state: %s %s' % (x['op'], show_term(x['place'])), loc=cx.loc(e.node))
    snd = sends(wp)
    k = ('elem', ('keys', members))
    ann = [(e, s) for e, s in snd if s['to'] == user(k)]
    r5.instance('PART announced to all members (departing one included) before removal')
    if not ann:
        r5.violation('process_part|no-announcement', 'PART is not announced to the channel members', loc=fp)
    for e, s in snd:
        if (e, s) not in ann:
            r5.violation('process_part|foreign-audience', 'PART is sent to %s' % show_term(s['to']), loc=cx.loc(e.node))
            continue
        f = subst(e.pc, ('is', ('get', members, k), 'Some'), True)
        ok, m = equivalent(f, D)
        if not ok:
            r5.violation('process_part|announcement-condition', 'PART announcement is not sent to every member exactly for accepted parts '
                         '(e.g. skips somebody): %s' % (m,), loc=cx.loc(e.node))
        if rm and e.seq > rm[0][0].seq:
            r5.violation('process_part|announcement-after-removal', 'PART is announced after the removal: the departing user is not told',
                         loc=cx.loc(e.node))
        want = sym.mk_ite(is_some(REASON), ('fmt', ('PART ', ('arg', 0), ' :', ('arg', 1)), c, ('some_of', REASON)),
                          ('fmt', ('PART ', ('arg', 0)), c))
        if not same_term(s['payload'], want, e.pc) or s['source'] != CONN_SOURCE:
            r5.violation('process_part|line-shape', 'PART line is not ":<user> PART <channel>[ :<reason>]"', loc=cx.loc(e.node),
                         found=show_term(s['payload'])[:160])
    reps = replies(wp)
    for variant, want in (('ErrNotOnChannel442', And(exists, Not(member))), ('ErrNoSuchChannel403', Not(exists))):
        evs = [e for e, r in reps if r['variant'] == variant]
        r5.instance('%s condition' % variant)
        if not evs or not equivalent(Or(*[e.pc for e in evs]), want)[0]:
            r5.violation('process_part|cond-%s' % variant, '%s is not emitted exactly in its refusal case' % variant, loc=fp)

    # ---------------------------------------------------------------- R4.6 readers
    r6 = cx.rule('R4.6', 'views read the relation only', floor=3, kind='reader-census')
    fnm = cx.fn('send_names_from_channel')
    wnm = cx.walk(fnm, args=[SELF, CONN, P('channel_name'), P('channel'), P('users'), P('end')], key='c04')
    pushes = [e for e in wnm.events if e.kind == 'local_mut' and e.data['method'] == 'push']
    r6.instance('NAMES entries come from channel.users')
    okr = pushes and all(any(l[2] is not None and mentions(l[2], field(P('channel'), 'users')) for l in e.loops) for e in pushes)
    for e in pushes:
        v = e.data['args'][0] if e.data['args'] else None
        if not (v and v[0] == 'adt' and dict(v[3]).get('nick') == ('elem', ('keys', field(P('channel'), 'users')))):
            okr = False
    if not okr:
        r6.violation('send_names_from_channel|source', 'NAMES entries are not exactly the keys of the channel member map', loc=fnm)
    fw = cx.fn('process_who')
    MASK = P('mask')
    ww = cx.walk(fw, args=[SELF, CONN, MASK], key='c04')
    rows = [e for e in ww.events if is_call(e, 'send_who_info') and e.data['args'][2] != ('none',)]
    r6.instance('WHO <channel> rows come from channel.users')
    mk = ('elem', ('keys', field(chan(MASK), 'users')))
    okw = len(rows) == 1 and rows[0].data['args'][3] == mk and rows[0].data['args'][4] == user(mk)
    if not okw:
        r6.violation('process_who|channel-source', 'WHO <channel> rows are not exactly the keys of the channel member map', loc=fw)
    fi = cx.fn('process_whois')
    wi = cx.walk(fi, args=[SELF, CONN, P('target'), P('nickmasks')], key='c12')
    ents = [e for e in wi.events if e.kind == 'adt' and e.data['adt'].endswith('WhoIsChannelStruct')]
    r6.instance('WHOIS channel list comes from user.channels with the prefix of channel.users[nick]')
    oki = bool(ents)
    for e in ents:
        chn = e.data['fields'].get('channel')
        if not (chn and chn[0] == 'elem' and path_of(chn[1])[-1:] == ['channels'] and mentions(chn[1], USERS)):
            oki = False
        if 'users' not in repr(e.data['fields'].get('prefix')):
            oki = False
    if not oki:
        r6.violation('process_whois|channel-source', 'WHOIS channel entries are not the user\'s own channel set with the rank from the channel '
                     'member map', loc=fi)


def rule_membership_funnel(cx, rule, only=None):
    """every departure / arrival goes through the one function that keeps both sides (and channel deletion) together
       (shared: C04 R4.1, C16 R16.2)"""
    census = cx_census(cx)
    want_callers = {
        'structs::Channel::remove_user': {'remove_user_from_channel'},
        'structs::Channel::add_user': {'process_join'},
        'structs::Channel::new_on_user_join': {'process_join'},
        'structs::Channel::rename_user': {'process_nick'},
        'structs::VolatileState::remove_user_from_channel': {'process_part', 'process_kick', 'remove_user'},
    }
    seen = {k: set() for k in want_callers}
    for fn, e in census:
        if e.kind == 'call' and e.data.get('local'):
            for k in want_callers:
                if e.data['callee'].endswith(k):
                    seen[k].add(base_fn(fn))
    for k, want in want_callers.items():
        if only is not None and k.split('::')[-1] not in only:
            continue
        rule.instance('%s callers: %s' % (k.split('::', 1)[1], ','.join(sorted(seen[k]))))
        for extra in sorted(seen[k] - want):
            rule.violation('%s|calls|%s' % (extra, k.split('::')[-1]), '%s is called from %s' % (k, extra), loc=extra)
        for miss in sorted(want - seen[k]):
            rule.violation('%s|no-longer-calls|%s' % (miss, k.split('::')[-1]), '%s no longer goes through %s' % (miss, k), loc=miss)

