"""C08 — Channel modes change only by members of sufficient rank, exactly as announced."""
from .common import *  # noqa: F401,F403
from .ranks import check_rank_predicates, pred


def P(n):
    return ('param', n)


CHANOBJ = P('chanobj')
CHUM = P('chum')
TARGET = P('target')
MODES_P = P('modes')
USERS_P = P('users')

# privilege per mode letter, as in the property statement
PRIV = {'q': 'founder', 'a': 'protected+', 'o': 'operator+', 'h': 'operator+'}
for _l in 'vbeIklimtns':
    PRIV[_l] = 'halfop+'
RANK_METHODS = {'o': ('add_operator', 'remove_operator'), 'v': ('add_voice', 'remove_voice'),
                'h': ('add_half_operator', 'remove_half_operator'), 'q': ('add_founder', 'remove_founder'),
                'a': ('add_protected', 'remove_protected')}
LIST_FIELDS = {'b': 'ban', 'e': 'exception', 'I': 'invite_exception'}
FLAG_FIELDS = {'i': 'invite_only', 'm': 'moderated', 't': 'protected_topic', 'n': 'no_external_messages', 's': 'secret'}
VALUE_FIELDS = {'l': 'client_limit', 'k': 'key'}
ENFORCERS = {
    'key': ['process_join'], 'ban': ['banned'], 'exception': ['banned'], 'invite_only': ['process_join', 'process_invite'],
    'invite_exception': ['process_join'], 'client_limit': ['process_join'], 'moderated': ['process_privmsg_notice'],
    'no_external_messages': ['process_privmsg_notice'], 'secret': ['process_privmsg_notice', 'process_list', 'send_names_from_channel',
                                                                    'process_whois'],
    'protected_topic': ['process_topic'],
}


def mentions_field(w, fname):
    for e in w.events:
        for a in atoms(e.pc):
            if _has_field(a, fname):
                return True
        for v in list((e.data.get('args') or [])) + [e.data.get('rhs'), e.data.get('recv'), e.data.get('value')]:
            if v is not None and _has_field(v, fname):
                return True
    rv = getattr(w, 'retval', None)
    return rv is not None and _has_field(rv, fname)


def _has_field(t, fname):
    if isinstance(t, tuple):
        if len(t) == 3 and t[0] == 'field' and t[2] == fname:
            return True
        return any(_has_field(x, fname) for x in t)
    if isinstance(t, dict):
        return any(_has_field(x, fname) for x in t.values())
    return False


def check(cx):
    ck = cx.check
    ck.decides += [
        'R8.1 process_mode_channel is entered only for a current member, with that member\'s own rank record; outsiders get 442 and reach no effect',
        'R8.2 every channel-mode effect is guarded by the privilege the statement assigns to its letter (q founder; a protected+; o,h operator+; others half-operator+)',
        'R8.3 rank predicate bodies implement the rank lattice',
        'R8.4 rank changes apply only to current members of the channel (else 441)',
        'R8.5 every privileged letter used without the privilege is answered 482',
        'R8.6 every applied change is appended to the announcement with its own letter, sign and stored parameter, and the announcement goes to all members',
        'R8.7 every mode field written here is read by the enforcing handler and rendered by MODE query',
        'R8.9 (imported) the ten Channel::add_*/remove_* methods the rank letters call update both the rank set and the member flag (C04 R4.4)',
        'R8.8 parameter cursor lock-step: for every parameter-taking letter the handler consumes one argument exactly where validate_channelmodes counted one (per letter and sign); an argument may stay unconsumed only on paths where the actor holds no privilege at all, so that a later letter of the same mode word can never be applied to a shifted parameter',
    ]
    ck.does_not_decide += ['that a concrete later JOIN/PRIVMSG observes the change (follows from R8.7 + C07/C10 on the same fields)']
    prog = cx.prog
    check_rank_predicates(cx, cx.rule('R8.3', 'rank predicate bodies used by channel MODE', floor=3, kind='equivalence'),
                          names=('is_protected', 'is_operator', 'is_half_operator'))

    # ---------------------------------------------------------------- R8.1 call site
    r1 = cx.rule('R8.1', 'membership gate of channel MODE', floor=3, kind='required-guard')
    fm = cx.fn('process_mode')
    TGT = P('target')
    wm = cx.walk(fm, args=[SELF, CONN, TGT, P('modes')], key='c08')
    ch = chan(TGT)
    members = field(ch, 'users')
    exists = has(CHANNELS, TGT)
    member = has(members, CONN_NICK)
    calls = [e for e in wm.events if is_call(e, 'process_mode_channel')]
    r1.instance('process_mode_channel call sites: %d' % len(calls))
    if len(calls) != 1:
        raise AnchorLost('process_mode -> process_mode_channel call not found')
    e = calls[0]
    ok, m = entails(e.pc, And(exists, member))
    if not ok:
        r1.violation('process_mode|gate', 'channel MODE is processed for a non-member (%s)' % model_str(m), loc=cx.loc(e.node))
    a = e.data['args']
    chum_ok = False
    from .C03 import cases
    leaves = [(c, l) for c, l in cases(a[6]) if sat(And(e.pc, c)) is not None]
    chum_ok = len(leaves) == 1 and leaves[0][1] == ('idx', members, CONN_NICK)
    r1.instance('arguments: users=state.users, chanobj=channels[target], chum=channels[target].users[own nick]')
    if a[2] != USERS or a[3] != ch or a[4] != TGT or not chum_ok:
        r1.violation('process_mode|gate-args', 'process_mode_channel is not applied to (state.users, channels[target], the actor\'s own '
                     'rank record)', loc=cx.loc(e.node))
    mreps = replies(wm)
    r1.instance('442 for outsiders')
    e442 = [x for x, r in mreps if r['variant'] == 'ErrNotOnChannel442']
    okc = e442 and equivalent(Or(*[x.pc for x in e442]), And(_is_chan(cx, wm, TGT), exists, Not(member)))[0]
    if not okc:
        r1.violation('process_mode|442', '442 is not sent exactly to non-members of an existing channel', loc=fm)
    for x, eff in effects(wm, prog):
        if eff['op'] not in ('get_mut',):
            ok, _ = entails(x.pc, Or(And(exists, member), Not(_is_chan(cx, wm, TGT))))
            if not ok:
                r1.violation('process_mode|outsider-effect', 'state effect in process_mode outside the member branch: %s' % eff['op'], loc=cx.loc(x.node))

    # ---------------------------------------------------------------- process_mode_channel
    fc = cx.fn('process_mode_channel')
    w = cx.walk(fc, args=[SELF, CONN, USERS_P, CHANOBJ, TARGET, MODES_P, CHUM], key='c08')
    founder = flag(field(CHUM, 'founder'))
    privf = {'founder': founder, 'protected+': pred(cx, 'is_protected', CHUM), 'operator+': pred(cx, 'is_operator', CHUM),
             'halfop+': pred(cx, 'is_half_operator', CHUM)}
    # the mode character term and the sign flag
    mchar = None
    for e in w.events:
        for a in atoms(e.pc):
            if a[0] == 'eq' and a[2][0] == 'lit' and isinstance(a[2][1], str) and len(a[2][1]) == 1 and 'chars' in repr(a[1]):
                mchar = a[1]
    if mchar is None:
        raise AnchorLost('mode character loop of process_mode_channel not found')
    sign = [a for e in w.events for a in atoms(e.pc) if a[0] == 'truth' and a[1][0] == 'mvar']
    sign = sign[0] if sign else None
    letters = sorted(PRIV)
    all_letters = letters + ['+', '-']

    def letter_of(pc):
        ls = []
        for l in all_letters:
            if entails(pc, Atom(('eq', mchar, ('lit', l))))[0]:
                ls.append(l)
        return ls[0] if len(ls) == 1 else None

    effs_all = effects(w, prog, roots=(CHANOBJ,))
    effs = [(e, x) for e, x in effs_all if x['op'] not in ('take', 'get_mut')]
    takes = [(e, x) for e, x in effs_all if x['op'] == 'take']
    locs = _announce_view(w, mchar, all_letters)

    r2 = cx.rule('R8.2', 'per-letter privilege guards every effect', floor=28, kind='required-guard')
    r4 = cx.rule('R8.4', 'rank changes only on members', floor=10, kind='required-guard')
    r6 = cx.rule('R8.6', 'announced exactly as applied', floor=28, kind='pairing')
    seen_groups = set()
    for e, x in effs:
        L = letter_of(e.pc)
        desc = '%s: %s %s' % (L, x['op'], show_term(x['place'])[:60])
        r2.instance(desc)
        if L is None or L not in PRIV:
            r2.violation('process_mode_channel|effect-without-letter|%s' % x['op'], 'a channel mode effect is not tied to one mode letter: %s'
                         % desc, loc=cx.loc(e.node))
            continue
        ok, m = entails(e.pc, privf[PRIV[L]])
        if not ok:
            r2.violation('process_mode_channel|privilege|%s|%s' % (L, x['op']), "mode '%s' (%s) can be applied without %s rank"
                         % (L, x['op'], PRIV[L]), loc=cx.loc(e.node))
        # the effect must be the one belonging to this letter
        exp_ok = True
        if L in RANK_METHODS:
            exp_ok = x['op'] in RANK_METHODS[L] and x['place'] == CHANOBJ
            r4.instance(desc)
            arg = x['args'][0] if x['args'] else None
            ok, m = entails(e.pc, has(field(CHANOBJ, 'users'), arg))
            if not ok:
                r4.violation('process_mode_channel|rank-nonmember|%s' % x['op'], 'rank %s can be applied to a nick that is not on the channel'
                             % x['op'], loc=cx.loc(e.node))
            if sign is not None:
                want_set = x['op'].startswith('add_')
                ok, _ = entails(e.pc, Atom(sign) if want_set else Not(Atom(sign)))
                if not ok:
                    r2.violation('process_mode_channel|sign|%s' % x['op'], '%s is not tied to the %s sign' % (x['op'], '+' if want_set else '-'),
                                 loc=cx.loc(e.node))
        elif L in LIST_FIELDS:
            pth = path_of(x['place'])
            exp_ok = (LIST_FIELDS[L] in pth) or (pth[-1:] == ['ban_info'] and L == 'b')
        elif L in FLAG_FIELDS:
            exp_ok = x['place'] == field(CHANOBJ, 'modes', FLAG_FIELDS[L]) and x['op'] == 'assign' and \
                (sign is None or sym.as_formula(x['value']) == Atom(sign))
        elif L in VALUE_FIELDS:
            exp_ok = x['place'] == field(CHANOBJ, 'modes', VALUE_FIELDS[L]) and x['op'] == 'assign'
        if not exp_ok:
            r2.violation('process_mode_channel|wrong-field|%s|%s' % (L, x['op']), "mode letter '%s' changes %s" % (L, show_term(x['place'])[:80]),
                         loc=cx.loc(e.node))
        # ---- announcement pairing: an append of this letter on the same path
        r6.instance('announce ' + desc)
        if x['op'] == 'assign' and L in LIST_FIELDS:
            continue   # the write-back of the taken list; the insert/remove is the announced change
        cands = [l for l in locs if l.data['method'] in ('push', 'add_assign', 'push_str')
                 and any(_lit_has(a, L) for a in l.data['args'])]
        paired = []
        for l in cands:
            lit_ = [a for a in l.data['args'] if _lit_has(a, L)][0][1]
            # same branch: the append happens whenever the effect happens
            if entails(e.pc, l.pc)[0]:
                paired.append((l, lit_))
        if L in FLAG_FIELDS or (L in VALUE_FIELDS):
            # flag / value letters: assignment covers both signs; need an append on each sign's path
            need = [Atom(sign), Not(Atom(sign))] if sign is not None else [T]
            for sg in need:
                okp = any(entails(And(e.pc, sg), l.pc)[0] and sat(And(l.pc, sg)) is not None and
                          _sign_ok(l, lit_, sg, sign, locs) for l, lit_ in
                          [(l, [a for a in l.data['args'] if _lit_has(a, L)][0][1]) for l in cands])
                if not okp:
                    r6.violation('process_mode_channel|unannounced|%s|%s' % (L, '+' if sg == Atom(sign) else '-'),
                                 "a change of mode '%s' is applied but not appended to the announcement for sign %s" % (L, '+' if sg == Atom(sign) else '-'),
                                 loc=cx.loc(e.node))
        else:
            if not paired:
                r6.violation('process_mode_channel|unannounced|%s|%s' % (L, x['op']), "mode '%s' (%s) is applied but not announced" % (L, x['op']),
                             loc=cx.loc(e.node))
            for l, lit_ in paired:
                want_plus = x['op'] in ('insert',) or x['op'].startswith('add_')
                if ('+' in lit_) != want_plus and lit_.strip()[:1] in '+-':
                    r6.violation('process_mode_channel|announce-sign|%s|%s' % (L, x['op']), "'%s' is announced as '%s'" % (x['op'], lit_.strip()),
                                 loc=cx.loc(l.node))
                # the parameter appended right after must be the stored value
                nxt = [k for k in locs if k.seq > l.seq and k.data['local'] == l.data['local']]
                if nxt and x['args']:
                    param = nxt[0].data['args'][0] if nxt[0].data['args'] else None
                    if param != x['args'][0]:
                        r6.violation('process_mode_channel|announce-param|%s|%s' % (L, x['op']), "announced parameter of '%s' is %s, applied is %s"
                                     % (L, show_term(param)[:60], show_term(x['args'][0])[:60]), loc=cx.loc(l.node))
    # l/k: announced parameter equals the argument the stored value is computed from
    for e, x in effs:
        L = letter_of(e.pc)
        if L in VALUE_FIELDS and x['op'] == 'assign':
            vals = [t for t in subterms(x['value']) if isinstance(t, tuple) and t and t[0] == 'some_of' and t[1][0] == 'next']
            cands = [l for l in locs if any(_lit_has(a, L) and '+' in a[1] for a in l.data['args'])]
            for l in cands:
                nxt = [k for k in locs if k.seq > l.seq and k.data['local'] == l.data['local']]
                if nxt and vals and nxt[0].data['args'][0] not in vals:
                    r6.violation('process_mode_channel|announce-param|%s' % L, "announced parameter of '+%s' differs from the stored one" % L,
                                 loc=cx.loc(l.node))
    # final fan-out
    snd = sends(w)
    r6.instance('MODE announcement fan-out')
    mk = ('elem', ('keys', field(CHANOBJ, 'users')))
    ann = [(e, s) for e, s in snd if s['to'] == ('idx', USERS_P, mk)]
    if not ann:
        r6.violation('process_mode_channel|no-announcement', 'applied modes are not announced to the channel members', loc=fc)
    for e, s in snd:
        if (e, s) not in ann:
            r6.violation('process_mode_channel|foreign-audience', 'MODE line sent to %s' % show_term(s['to']), loc=cx.loc(e.node))
        if s['source'] != CONN_SOURCE or not (s['payload'][0] == 'fmt' and s['payload'][1][0] == 'MODE ' and s['payload'][2] == TARGET):
            r6.violation('process_mode_channel|announcement-shape', 'MODE announcement is not ":<actor> MODE <channel> <modes>"', loc=cx.loc(e.node))
        # guard: only "nothing applied" may suppress it
        for a in atoms(e.pc):
            if not (a[0] == 'empty' or a == ('is', ('get', field(CHANOBJ, 'users'), mk), 'Some')):
                r6.violation('process_mode_channel|announcement-guard', 'MODE announcement depends on %s' % show_term(a), loc=cx.loc(e.node))

    # a list taken out of the channel (`modes.ban.take()`) is a change of the channel unless it is put back on every path: it needs
    # the privilege of its letter, or a restoring assignment whatever happens afterwards
    for e, x in takes:
        L = letter_of(e.pc)
        r2.instance('take of %s' % show_term(x['place'])[-40:])
        if L is None or L not in PRIV:
            continue
        guarded = entails(e.pc, privf[PRIV[L]])[0]
        restores = [a.pc for a, y in effs if y['op'] == 'assign' and y['place'] == x['place'] and a.seq > e.seq]
        restored = bool(restores) and entails(e.pc, Or(*restores))[0]
        if not guarded and not restored:
            r2.violation('process_mode_channel|take-without-restore|%s' % L, "the %s list is taken out of the channel before the privilege check "
                         "of mode '%s' and not put back when the change is refused: a refused MODE empties the list"
                         % (path_of(x['place'])[-1], L), loc=cx.loc(e.node))

    # ---------------------------------------------------------------- R8.5 refusals
    r5 = cx.rule('R8.5', '482 for every privileged letter without privilege', floor=15, kind='emission')
    reps = replies(w)
    e482 = [e for e, r in reps if r['variant'] == 'ErrChanOpPrivsNeeded482']
    for L in letters:
        r5.instance("482 for '%s' without %s" % (L, PRIV[L]))
        cond = And(Atom(('eq', mchar, ('lit', L))), Not(privf[PRIV[L]]))
        mine = [e for e in e482 if sat(And(e.pc, Atom(('eq', mchar, ('lit', L))))) is not None]
        if not mine:
            r5.violation("process_mode_channel|no-482|%s" % L, "mode '%s' used without %s rank is not answered with 482" % (L, PRIV[L]), loc=fc)
            continue
        # some 482 must be reachable whenever the letter is used (with an argument, for list modes) without the rank
        reach = Or(*[e.pc for e in mine])
        extra = [a for a in atoms(reach) if a[0] == 'is' and a[1][0] == 'next']
        pre = And(cond, *[Atom(a) for a in extra], *[Atom(a) for a in atoms(reach) if a[0] == 'empty' and a[1] == MODES_P and False])
        f = reach
        for a in atoms(f):
            if a == ('empty', MODES_P):
                f = subst(f, a, False)
        ok, m = entails(pre, f)
        if not ok:
            r5.violation("process_mode_channel|482-gap|%s" % L, "some use of mode '%s' without %s rank gets no 482 (%s)" % (L, PRIV[L], model_str(m)),
                         loc=fc)
    e441 = [e for e, r in reps if r['variant'] == 'ErrUserNotInChannel441']
    r5.instance('441 for rank changes on non-members')
    if not e441:
        r5.violation('process_mode_channel|no-441', 'a rank change on a non-member is not answered with 441', loc=fc)

    # ---------------------------------------------------------------- R8.9 imported: what add_*/remove_* do
    r9 = cx.rule('R8.9', 'rank methods update set and flag (imported)', floor=1, kind='dependency')
    depends(cx, r9, 'C04', ('R4.4',), 'Channel::add_*/remove_* update exactly (rank set, member flag)', only=r'^Channel::(add|remove)_(operator|half_operator|voice|founder|protected)\|')

    # ---------------------------------------------------------------- R8.8 parameter cursor
    # ---------------------------------------------------------------- R8.10 what a later MODE query shows
    r10 = cx.rule('R8.10', 'mode display: letters and their parameters in the same order', floor=2, kind='agreement')
    fdisp = [b_ for b_ in prog.bodies if b_.endswith('::fmt') and 'config::ChannelModes as std::fmt::Display' in b_]
    if not fdisp:
        raise AnchorLost('Display for ChannelModes not found')
    wd_ = cx.walk(fdisp[0], args=[P('self'), P('f')], key='c08d')
    apps_ = [e for e in wd_.events if e.kind == 'local_mut' and e.data['method'] in ('push', 'push_str', 'add_assign', 'init')]
    PARAM_OF = {'k': 'key', 'l': 'client_limit'}
    pos = {}
    for e in apps_:
        a0 = e.data['args'][0] if e.data['args'] else None
        if isinstance(a0, tuple) and a0[:1] == ('lit',) and a0[1] in PARAM_OF and ('letter', a0[1]) not in pos:
            pos[('letter', a0[1])] = e
        for L, fld in PARAM_OF.items():
            if isinstance(a0, tuple) and mentions(a0, field(P('self'), fld)) and ('param', L) not in pos:
                pos[('param', L)] = e
    for L, fld in PARAM_OF.items():
        r10.instance("'%s' is shown with %s" % (L, fld))
        if ('letter', L) not in pos or ('param', L) not in pos:
            r10.violation('ChannelModes::fmt|missing|%s' % L, "mode '%s' is not shown with its parameter" % L, loc=fdisp[0])
        elif not equivalent(pos[('letter', L)].pc, pos[('param', L)].pc)[0]:
            r10.violation('ChannelModes::fmt|condition|%s' % L, "mode letter '%s' and its parameter are shown under different conditions" % L,
                          loc=cx.loc(pos[('param', L)].node))
    have = [L for L in PARAM_OF if ('letter', L) in pos and ('param', L) in pos]
    for i_, a_ in enumerate(have):
        for b_ in have[i_ + 1:]:
            if (pos[('letter', a_)].seq < pos[('letter', b_)].seq) != (pos[('param', a_)].seq < pos[('param', b_)].seq):
                r10.violation('ChannelModes::fmt|parameter-order|%s%s' % (a_, b_), "the parameters of '%s' and '%s' are listed in the opposite order "
                              'of their letters: a MODE query shows each with the other\'s value' % (a_, b_), loc=cx.loc(pos[('param', b_)].node))

    r8 = cx.rule('R8.8', 'parameter cursor lock-step with the validator', floor=10, kind='agreement')
    check_cursor(cx, r8, w, mchar, sign, privf['halfop+'], fc)

    # ---------------------------------------------------------------- R8.7 writer / enforcer / renderer
    r7 = cx.rule('R8.7', 'written mode fields are enforced and rendered', floor=10, kind='agreement')
    written = set()
    for e, x in effs:
        for f in path_of(x['place']):
            if f in ENFORCERS:
                written.add(f)
    wfmt = cx.walk(cx.fn('fmt', 'ChannelModes as std::fmt::Display'), args=[P('self'), P('f')])
    for f in sorted(written):
        for enf in ENFORCERS[f]:
            r7.instance('%s read by %s' % (f, enf))
            hint = 'ChannelModes' if enf == 'banned' else None
            we = cx.walk(cx.fn(enf, hint))
            if not mentions_field(we, f):
                r7.violation('%s|does-not-read|%s' % (enf, f), 'mode field %s is set by MODE but %s no longer reads it' % (f, enf), loc=cx.fn(enf, hint))
        r7.instance('%s rendered by MODE query' % f)
        if f not in ('ban_info',) and not mentions_field(wfmt, f):
            r7.violation('ChannelModes::fmt|does-not-show|%s' % f, 'mode field %s is not shown by the MODE query' % f, loc=cx.fn('fmt', 'ChannelModes as std::fmt::Display'))
    for f in ENFORCERS:
        if f not in written:
            r7.violation('process_mode_channel|never-writes|%s' % f, 'mode field %s can no longer be changed by MODE' % f, loc=fc)


PARAM_LETTERS = 'beIovhqalk'


class _App:
    """one append to an announcement accumulator, as the rules see it"""
    kind = 'local_mut'

    def __init__(self, ev, pc, local, method, args, seq):
        self.ev, self.pc, self.node, self.loops, self.guards, self.fn = ev, pc, ev.node, ev.loops, ev.guards, ev.fn
        self.seq = seq
        self.data = dict(ev.data, local=local, method=method, args=args)


def _announce_view(w, mchar, letters):
    """the appends to local accumulators with (a) conditional values expanded per case, (b) an appended mode character variable
       replaced by each concrete letter it can be on that path, and (c) runs of adjacent literal pieces on the same accumulator
       merged into one literal - so that `s.push(' '); s.push(if set {'+'} else {'-'}); s.push(mchar); s.push(' ')` reads
       like the literal `" +o "` it builds"""
    base = local_muts(w)
    slots = []          # (event, [(pc, arg)]) in program order
    for e in base:
        a = e.data.get('args') or []
        if e.data['method'] not in ('push', 'push_str', 'add_assign') or not a:
            slots.append((e, None))
            continue
        alts = []
        if a[0] == mchar:
            for L in letters:
                c = And(e.pc, Atom(('eq', mchar, ('lit', L))))
                if sat(c) is not None:
                    alts.append((c, ('lit', L)))
        else:
            alts.append((e.pc, a[0]))
        slots.append((e, alts))
    out = []
    i = 0
    n = len(slots)
    while i < n:
        e, alts = slots[i]
        if alts is None:
            out.append(e)
            i += 1
            continue
        is_lit = all(isinstance(x[1], tuple) and x[1][0] == 'lit' and isinstance(x[1][1], str) for x in alts)
        if not is_lit:
            for pc_, arg in alts:
                out.append(_App(e, pc_, e.data['local'], e.data['method'], [arg], e.seq))
            i += 1
            continue
        # extend the run: following slots on the same accumulator that are literals too (events expanded from one site share seq)
        run = [(e, alts)]
        j = i + 1
        while j < n and slots[j][1] is not None and slots[j][0].data['local'] == e.data['local'] and \
                all(isinstance(x[1], tuple) and x[1][0] == 'lit' and isinstance(x[1][1], str) for x in slots[j][1]):
            run.append(slots[j])
            j += 1
        # group alternatives that come from the same site (same seq) into one position
        positions = []
        for ev_, al_ in run:
            if positions and positions[-1][0] == ev_.seq:
                positions[-1][1].extend(al_)
            else:
                positions.append([ev_.seq, list(al_), ev_])
        combos = [(T, '')]
        for seq_, al_, ev_ in positions:
            nxt = []
            for pc0, txt in combos:
                for pc1, arg in al_:
                    c = And(pc0, pc1)
                    if len(nxt) < 64 and sat(c) is not None:
                        nxt.append((c, txt + arg[1]))
            combos = nxt
        last = positions[-1][2]
        for pc_, txt in combos:
            out.append(_App(last, pc_, e.data['local'], 'push_str', [('lit', txt)], last.seq))
        i = j
    return out


def _next_events(w):
    out = []
    for e in w.events:
        if e.kind == 'call' and e.data.get('name') == 'next' and e.data.get('args') and \
                e.data['args'][0] == ('field', ('elem', MODES_P), '1'):
            out.append(e)
    return out


def _validator_table(cx):
    """V[L][s]: validate_channelmodes consumes an argument for letter L under sign s on input it accepts"""
    fv = cx.fn('validate_channelmodes')
    wv = cx.walk(fv, key='census')
    nx = _next_events(wv)
    if len(nx) < 6:
        raise AnchorLost('validate_channelmodes: argument cursor (margs_it.next()) sites not found (%d)' % len(nx))
    vchar = None
    for e in nx:
        for a in atoms(e.pc):
            if a[0] == 'eq' and a[2][0] == 'lit' and isinstance(a[2][1], str) and len(a[2][1]) == 1:
                vchar = a[1]
    vsign = [a for e in nx for a in atoms(e.pc) if a[0] == 'truth' and a[1][0] == 'mvar']
    vsign = vsign[0] if vsign else None
    if vchar is None or vsign is None:
        raise AnchorLost('validate_channelmodes: mode character / sign flag not found')
    errs = [r.pc for r in wv.events if r.kind == 'return' and isinstance(r.data.get('value'), tuple) and r.data['value'][:1] == ('err',)]
    table = {}
    for L in PARAM_LETTERS:
        table[L] = {}
        for s in (True, False):
            ctx = And(Atom(('eq', vchar, ('lit', L))), Atom(vsign) if s else Not(Atom(vsign)))
            consumed = False
            for x in nx:
                if sat(And(x.pc, ctx)) is None:
                    continue
                some = Atom(('is', ('next', x.data['args'][0], x.seq), 'Some'))
                # an argument that is present here and always rejected is not consumed on accepted input
                rejected = errs and entails(And(x.pc, ctx, some), Or(*errs))[0]
                if not rejected:
                    consumed = True
            table[L][s] = consumed
    return table


def check_cursor(cx, rule, w, mchar, sign, weakest, fc):
    V = _validator_table(cx)
    nx = _next_events(w)
    if len(nx) < 6 or sign is None:
        raise AnchorLost('process_mode_channel: argument cursor (margs_it.next()) sites not found (%d)' % len(nx))
    # iteration condition: what every event of the letter loop has in common
    inner = [e for e in w.events if len(e.loops) >= 2]
    base = [c for c in conjuncts(inner[0].pc) if all(entails(e.pc, c)[0] for e in inner[:40])] if inner else []
    I = And(*base) if base else T
    for L in PARAM_LETTERS:
        H = Or(*[x.pc for x in nx]) if nx else F
        for s in (True, False):
            ctx = And(I, Atom(('eq', mchar, ('lit', L))), Atom(sign) if s else Not(Atom(sign)))
            rule.instance("'%s%s': validator counts %s argument" % ('+' if s else '-', L, 'one' if V[L][s] else 'no'))
            if V[L][s]:
                ok, m = entails(And(ctx, Not(H)), Not(weakest))
                if not ok:
                    rule.violation("process_mode_channel|cursor-skips|%s%s" % ('+' if s else '-', L),
                                   "the argument of mode '%s%s' can stay unconsumed although the actor holds a privilege (%s): every later "
                                   "parameter of the same mode word is then applied to the wrong letter" % ('+' if s else '-', L, model_str(m)), loc=fc)
            else:
                m = sat(And(ctx, H))
                if m is not None:
                    rule.violation("process_mode_channel|cursor-overruns|%s%s" % ('+' if s else '-', L),
                                   "mode '%s%s' consumes an argument that the validator did not count for it" % ('+' if s else '-', L), loc=fc)


def _lit_has(a, L):
    return isinstance(a, tuple) and a and a[0] == 'lit' and isinstance(a[1], str) and L in a[1] and len(a[1].strip()) <= 2


def _sign_ok(l, lit_, sg, sign, locs):
    """flag letters are pushed as a bare char into the set/unset string: the string identity gives the sign"""
    name = l.data['local'][1]
    if lit_.strip().startswith('+'):
        return sg == Atom(sign)
    if lit_.strip().startswith('-'):
        return sg != Atom(sign)
    if 'unset' in name:
        return sg != Atom(sign)
    if 'set' in name:
        return sg == Atom(sign)
    return True


def _is_chan(cx, wm, tgt):
    """the 'target is a channel name' atom of process_mode"""
    for e in wm.events:
        for a in atoms(e.pc):
            if a[0] == 'is' and a[2] == 'Ok' and a[1][0] == 'call' and a[1][1].endswith('validate_channel') and a[1][2] == tgt:
                return Atom(a)
    raise AnchorLost('process_mode: channel/user discrimination not found')
