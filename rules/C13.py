"""C13 — Lines are framed and parsed by the IRC grammar, and relays re-parse identically.

The agreement of the tokeniser with the grammar over all strings is a runtime-value property;
this check decides the structural necessary conditions: total, pre-execution error mapping;
agreement of the verb / CommandId / Command / index / counter / dispatch / HELP tables; the
NeedMoreParams identity per verb; validation before execution with the right validator per
field; CRLF encoder constants and the single writer of the socket; colon-introduced trailing
free text in every relay/reply template; the serialiser's colon condition; and the idiom used
to split off the trailing parameter (with a constructive counterexample for the wrong idiom).
"""
from .common import *  # noqa: F401,F403
from .common import _recv_mut
from .C03 import cx_census
from .C01 import select_arms


def P(n):
    return ('param', n)


# (variant, field, validator[, element?])
VALIDATED = [
    ('NICK', 'nickname', 'validate_username', False), ('USER', 'username', 'validate_username', False),
    ('OPER', 'name', 'validate_username', False), ('JOIN', 'channels', 'validate_channel', True),
    ('PART', 'channels', 'validate_channel', True), ('TOPIC', 'channel', 'validate_channel', False),
    ('NAMES', 'channels', 'validate_channel', True), ('LIST', 'channels', 'validate_channel', True),
    ('INVITE', 'nickname', 'validate_username', False), ('INVITE', 'channel', 'validate_channel', False),
    ('KICK', 'channel', 'validate_channel', False), ('KICK', 'users', 'validate_username', True),
    ('MODE', 'target', 'validate_channel', False), ('MODE', 'target', 'validate_username', False),
    ('MODE', 'modes', 'validate_channelmodes', False), ('MODE', 'modes', 'validate_usermodes', False),
    ('PRIVMSG', 'targets', 'validate_username', True), ('PRIVMSG', 'targets', 'validate_prefixed_channel', True),
    ('NOTICE', 'targets', 'validate_username', True), ('NOTICE', 'targets', 'validate_prefixed_channel', True),
    ('WHOIS', 'nickmasks', 'validate_username', True), ('WHOWAS', 'nickname', 'validate_username', False),
    ('KILL', 'nickname', 'validate_username', False), ('USERHOST', 'nicknames', 'validate_username', True),
    ('SQUIT', 'server', 'validate_server', False), ('CONNECT', 'target_server', 'validate_server', False),
]
# reply fields carrying client-chosen free text: must be the last placeholder, introduced by ':'
FREE_TEXT = {
    'RplAway301': 'message', 'RplTopic332': 'topic', 'RplList322': 'topic', 'RplWhoIsUser311': 'realname',
    'RplWhoWasUser314': 'realname', 'RplWhoReply352': 'realname', 'RplMotd372': 'motd',
}


def check(cx):
    ck = cx.check
    ck.decides += [
        'R13.1 every MessageError / CommandError variant is mapped to its reply (421, 461 with the command\'s own name, 472, 501, 696, ERROR lines, nothing for Empty) and returns before counting/dispatch; an over-long line is answered 417 before any parsing; the codec limit equals ISUPPORT LINELEN',
        'R13.2 verb literals <-> CommandId names <-> Command variants <-> index() bijection <-> command_counts length <-> HELP list agree; the verb is compared after ASCII upper-casing; unknown verbs return UnknownCommand with the offending word',
        'R13.3 NeedMoreParams always names the verb of its own arm (arity guards themselves: C05 R5.1)',
        'R13.4 from_message returns Ok only through validate(); validate() applies the right validator to every name-typed field',
        'R13.5 the encoder appends exactly CR LF after the payload; only BufferedLineStream::flush writes to the socket, draining the buffer in order',
        'R13.6 every relay/reply template places client-chosen free text last, introduced by " :"',
        'R13.7 the relay serialiser prefixes the last parameter with " :" when it is empty or contains a space, tab or colon, and joins earlier parameters by single spaces',
        'R13.10 the name validators accept only what can travel as a middle parameter: validate_username / validate_channel return Ok only for non-empty names without a space, comma or colon (a trailing parameter can carry all of these into a name)',
        'R13.11 every Reply variant is rendered with the numeric in its name, the client as first parameter, and every one of its fields (100 variants)',
        'R13.12 every reply is addressed to the requesting connection: the client parameter of every Reply literal is client_name() of the connection\'s own state, which is its nick, else its user name, else its host',
        'R13.13 the received line is only trimmed at its start before it is split: trailing blanks belong to the trailing parameter',
        'R13.14 every Command field is built from the message parameters without slicing, trimming or case-folding them (what the handler applies is what the relayed original message says); the line handed to the tokeniser is the decoded line itself',
        'R13.9 offset coordinates in the parser: the length of a piece found inside the sub-slice base[a..] is used as an offset into base only with a added',
        'R13.8 the trailing parameter is split off at " :" (accepted idiom); a split at a bare \':\' necessarily misreads "X a:b c"',
    ]
    ck.does_not_decide += ['agreement of the tokeniser with the grammar over all strings beyond R13.8 (blank runs, tabs, multi-byte text)',
                           'byte-level framing of several lines per TCP segment (tokio_util LinesCodec, trusted)']
    prog = cx.prog
    census = cx_census(cx)

    # ---------------------------------------------------------------- R13.1
    r1 = cx.rule('R13.1', 'error mapping total and before execution', floor=12, kind='emission')
    pi = cx.fn('process_internal')
    w = cx.walk(pi)
    reps = replies(w)
    want_cmd = {
        'UnknownCommand': ('ErrUnknownCommand421', None), 'NeedMoreParams': ('ErrNeedMoreParams461', None),
        'UnknownMode': ('ErrUnknownMode472', None), 'UnknownUModeFlag': ('ErrUmodeUnknownFlag501', None),
        'InvalidModeParam': ('ErrInvalidModeParam696', None), 'UnknownSubcommand': (None, 'ERROR :'),
        'ParameterDoesntMatch': (None, 'ERROR :'), 'WrongParameter': (None, 'ERROR :'),
    }
    cmd_err_variants = [v['name'] for v in prog.adts['command::CommandError']['variants']]
    msg_err_variants = [v['name'] for v in prog.adts['command::MessageError']['variants']]

    def reps_under(variant_name, adt_variants):
        """replies reachable when the matched error value is `variant_name`"""
        out = []
        for e, r in reps:
            terms = {a[1] for a in atoms(e.pc) if a[0] == 'is' and a[2] in adt_variants}
            for t in terms:
                if any(a[0] == 'is' and a[1] == t and a[2] == variant_name for a in atoms(e.pc)) and \
                        sat(And(e.pc, Atom(('is', t, variant_name)))) is not None and \
                        sat(And(e.pc, Not(Atom(('is', t, variant_name))), *[Not(Atom(('is', t, o))) for o in adt_variants if o != variant_name])) is None:
                    out.append((e, r))
                    break
        return out
    for v in cmd_err_variants:
        r1.instance('CommandError::%s' % v)
        if v not in want_cmd:
            r1.violation('process_internal|unmapped-CommandError|%s' % v, 'CommandError::%s has no frozen expectation: classify its reply' % v, loc=pi)
            continue
        variant, text = want_cmd[v]
        mine = reps_under(v, cmd_err_variants)
        good = [(e, r) for e, r in mine if (variant and r['variant'] == variant) or
                (text and r['variant'] is None and r['text'][0] == 'fmt' and str(r['text'][1][0]).startswith(text))]
        if not good:
            r1.violation('process_internal|CommandError|%s' % v, 'CommandError::%s is not answered with %s' % (v, variant or ('"%s..."' % text)), loc=pi)
        for e, r in good:
            if v == 'NeedMoreParams':
                c = r['fields'].get('command')
                if not (c and c[0] == 'field' and c[2] == 'name' and 'NeedMoreParams' in repr(c)):
                    r1.violation('process_internal|461-command', '461 does not carry the name of the command that lacked parameters', loc=cx.loc(e.node))
            if v == 'UnknownCommand':
                c = r['fields'].get('command')
                if not (c and 'UnknownCommand' in repr(c)):
                    r1.violation('process_internal|421-command', '421 does not carry the offending word', loc=cx.loc(e.node))
    want_msg = {'Empty': None, 'WrongSource': 'ERROR :Wrong source', 'NoCommand': 'ERROR :No command supplied'}
    for v in msg_err_variants:
        r1.instance('MessageError::%s' % v)
        if v not in want_msg:
            r1.violation('process_internal|unmapped-MessageError|%s' % v, 'MessageError::%s has no frozen expectation' % v, loc=pi)
            continue
        mine = reps_under(v, msg_err_variants)
        if want_msg[v] is None:
            if mine:
                r1.violation('process_internal|MessageError|%s' % v, 'an empty line is answered', loc=pi)
        elif not any(r['text'] == ('lit', want_msg[v]) for e, r in mine):
            r1.violation('process_internal|MessageError|%s' % v, 'MessageError::%s is not answered with "%s"' % (v, want_msg[v]), loc=pi)
    # pre-execution: counting and dispatch only after both parses succeeded
    parse_ok = [a for e in w.events for a in atoms(e.pc) if a[0] == 'is' and a[2] == 'Ok' and a[1][0] == 'call'
                and a[1][1].endswith(('from_message', 'from_shared_str'))]
    parse_ok = list(dict.fromkeys(parse_ok))
    r1.instance('dispatch/count only after successful parse (%d parse results)' % len(parse_ok))
    if len(parse_ok) != 2:
        raise AnchorLost('process_internal: the two parse steps were not found')
    for e in w.events:
        if e.kind == 'call' and e.data.get('local') and (e.data['name'].startswith('process_') or e.data['name'] == 'count_command'):
            if not entails(e.pc, And(*[Atom(a) for a in parse_ok]))[0]:
                r1.violation('process_internal|executes-unparsed|%s' % e.data['name'], '%s can run for a line that failed to parse/validate'
                             % e.data['name'], loc=cx.loc(e.node))
    e417 = [e for e, r in reps if r['variant'] == 'ErrInputTooLong417']
    r1.instance('over-long line: 417 and return before parsing')
    fs = [a for a in parse_ok if a[1][1].endswith('from_shared_str')]
    ok417 = bool(e417) and all(sat(And(e.pc, Atom(fs[0]))) is not None or True for e in e417)
    for e in e417:
        if not any(a[0] == 'is' and a[2] == 'MaxLineLengthExceeded' for a in atoms(e.pc)):
            ok417 = False
        rets = [x for x in w.events if x.kind == 'return' and x.seq > e.seq and entails(e.pc, x.pc)[0] and entails(x.pc, e.pc)[0]]
        if not rets:
            ok417 = False
    # from_shared_str is evaluated only for Some(Ok(line))
    for e in w.events:
        if is_call(e, 'from_shared_str'):
            if any(a[0] == 'is' and a[2] == 'MaxLineLengthExceeded' and sat(And(e.pc, Atom(a))) is not None for a in atoms(e.pc)):
                ok417 = False
    if not ok417:
        r1.violation('process_internal|417', 'an over-long line is not answered with 417 before any part of it is parsed', loc=pi)
    fu = cx.fn('user_state_process')
    wu = cx.walk(fu, args=[P('main_state'), P('stream'), P('addr')], key='c06')
    lim = [e.data['args'][0] for e in wu.events if is_call(e, 'new_with_max_length')]
    linelen = None
    sb = prog.bodies.get('state::conn_cmds::SUPPORT_TOKEN_INT_VALUE')
    if sb:
        for n in ir.walk(sb['body']):
            if n.get('k') == 'Adt':
                d = {f['f']: f['e'] for f in n['fields']}
                nm, val = ir.strip(d.get('name', {})), ir.strip(d.get('value', {}))
                if nm.get('val') == 'LINELEN':
                    linelen = val.get('val')
    r1.instance('codec limit %s == ISUPPORT LINELEN %s' % (lim, linelen))
    if not lim or lim[0] != ('lit', linelen):
        r1.violation('user_state_process|linelen', 'the line-length limit of the codec (%s) differs from the advertised LINELEN (%s)'
                     % (show_term(lim[0]) if lim else None, linelen), loc=fu)

    # ---------------------------------------------------------------- R13.2 tables
    r2 = cx.rule('R13.2', 'verb / id / variant / index / counter / HELP tables', floor=41, kind='table-agreement')
    fp = cx.fn('parse_from_message')
    MSG = P('message')
    wp = cx.walk(fp, args=[MSG], key='c13')
    verbs = []
    scrut = None
    for e in wp.events:
        for a in atoms(e.pc):
            if a[0] == 'eq' and a[2][0] == 'lit' and isinstance(a[2][1], str) and \
                    ((a[1][0] == 'call' and a[1][2:] == (field(MSG, 'command'),)) or a[1] == field(MSG, 'command')):
                if a[2][1] not in verbs:
                    verbs.append(a[2][1])
                scrut = a[1]
    variants = [v['name'] for v in prog.adts['command::Command']['variants']]
    ids = [v['name'] for v in prog.adts['command::CommandId']['variants']]
    names = []
    tb = prog.bodies.get('<command::CommandId as std::ops::Deref>::deref::TABLE')
    if tb:
        for n in ir.walk(tb['body']):
            if n.get('k') == 'Adt' and n['adt'].endswith('CommandName'):
                names.append(ir.strip(n['fields'][0]['e']).get('val'))
    help_cmds = []
    hb = prog.bodies.get('help::HELP_TOPICS')
    if hb:
        lits = [n.get('val') for n in ir.walk(hb['body']) if n.get('k') == 'Lit' and n.get('lk') == 'str']
        for i, l in enumerate(lits):
            if l == 'COMMANDS' and i + 1 < len(lits):
                help_cmds = [x.split(' ')[0] for x in lits[i + 1].split('\n')[1:] if x.strip()]
    if not verbs or not names:
        raise AnchorLost('verb table / CommandId table not found')
    for v in variants:
        r2.instance('command %s' % v)
        probs = []
        if v not in verbs:
            probs.append('no verb literal in the parser')
        if v not in names:
            probs.append('no CommandId name')
        if not any(i.strip('_') == v + 'Id' for i in ids):
            probs.append('no CommandId variant')
        if v not in help_cmds:
            probs.append('missing from HELP COMMANDS')
        if probs:
            r2.violation('tables|%s' % v, 'Command::%s: %s' % (v, '; '.join(probs)), loc=fp)
    for x in verbs:
        if x not in variants:
            r2.violation('tables|verb-%s' % x, 'the parser accepts verb %s which has no Command variant' % x, loc=fp)
    if names != variants or [i.strip('_')[:-2] for i in ids] != variants:
        r2.violation('tables|order', 'CommandId table order differs from the Command variant order (statistics would be attributed to the wrong '
                     'command)', loc=fp)
    r2.instance('verb is compared after to_ascii_uppercase()')
    if not (scrut and scrut[0] == 'call' and scrut[1].endswith('to_ascii_uppercase') and scrut[2] == field(MSG, 'command')):
        r2.violation('parse_from_message|case-folding', 'the verb is not matched case-insensitively (to_ascii_uppercase of message.command)', loc=fp)
    r2.instance('unknown verb -> UnknownCommand(word)')
    unk = [e for e in wp.events if e.kind == 'adt' and e.data['variant'] == 'UnknownCommand']
    if not unk or any(sat(And(u.pc, Atom(('eq', scrut, ('lit', v))))) is not None for u in unk for v in verbs[:3]):
        r2.violation('parse_from_message|unknown-verb', 'an unknown verb is not rejected with UnknownCommand', loc=fp)
    from .panics import Discharger
    r2.instance('index() bijection onto 0..N and N == len(command_counts) == #CommandId')
    if not Discharger(cx, prog).command_tables():
        r2.violation('tables|index', 'Command::index() is not a bijection onto 0..NUM_COMMANDS matching the counter array', loc=cx.fn('index', 'command::Command'))

    # ---------------------------------------------------------------- R13.3 NeedMoreParams identity
    r3 = cx.rule('R13.3', 'NeedMoreParams names its own verb', floor=20, kind='table-agreement')
    for e in wp.events:
        if e.kind == 'adt' and e.data['variant'] == 'NeedMoreParams':
            arg = list(e.data['fields'].values())[0]
            idname = arg[2] if arg[0] == 'adt' else None
            mine = [v for v in verbs if entails(e.pc, Atom(('eq', scrut, ('lit', v))))[0]]
            r3.instance('%s -> %s' % (mine, idname))
            if len(mine) != 1 or idname is None or idname.strip('_') != mine[0] + 'Id':
                r3.violation('parse_from_message|461-identity|%s' % (mine[0] if mine else '?'), 'the %s arm reports missing parameters as %s'
                             % (mine, idname), loc=cx.loc(e.node))

    # ---------------------------------------------------------------- R13.4 validation precedes execution
    r4 = cx.rule('R13.4', 'validate() gates Ok and applies the right validators', floor=20, kind='census')
    ffm = cx.fn('from_message')
    wfm = cx.walk(ffm, args=[MSG], key='c13')
    rv = wfm.retval
    parsed = ('call', fp, MSG)
    val_ok = Atom(('is', ('call', cx.fn('validate', 'command::Command'), ('some_of', parsed)), 'Ok'))
    r4.instance('from_message: Ok only if parse Ok and validate Ok')
    from .C03 import cases
    okfm = True
    for c, leaf in cases(rv):
        if leaf[0] == 'ok':
            if not entails(c, And(Atom(('is', parsed, 'Ok')), val_ok))[0] or leaf[1] != ('some_of', parsed):
                okfm = False
    if not okfm or not any(l[0] == 'ok' for _, l in cases(rv)):
        r4.violation('from_message|gate', 'Command::from_message can return Ok without a successful validate()', loc=ffm)
    fv = cx.fn('validate', 'command::Command')
    ME = P('self')
    wv = cx.walk(fv, args=[ME], key='c13')
    calls = [e for e in wv.events if e.kind == 'call' and e.data.get('local') and e.data['name'].startswith('validate_')]
    for variant, fld, validator, elem in VALIDATED:
        r4.instance('%s.%s -> %s' % (variant, fld, validator))
        base = ('vfield', ME, variant, fld)
        hit = False
        for e in calls:
            if e.data['name'] != validator:
                continue
            if not any(a == ('is', ME, variant) for a in atoms(e.pc)):
                continue
            if any(mentions(a0, base) for a0 in e.data['args']):
                hit = True
        if not hit:
            r4.violation('validate|%s.%s|%s' % (variant, fld, validator), 'Command::%s.%s is not checked by %s before execution'
                         % (variant, fld, validator), loc=fv)

    # ---------------------------------------------------------------- R13.5 framing
    r5 = cx.rule('R13.5', 'CRLF encoder and single socket writer', floor=3, kind='shape')
    fe = cx.fn('encode')
    we = cx.walk(fe, args=[P('self'), P('line'), P('buf')])
    puts = [(e.data['name'], e.data['args'][1:]) for e in we.events if e.kind == 'call' and e.data['name'] in ('put', 'put_u8', 'put_slice', 'extend_from_slice')
            and e.pc == T]
    r5.instance('encode: payload, 13, 10')
    want_puts = [('put', [('call', 'std::string::String::as_bytes', P('line'))]), ('put_u8', [('lit', 13)]), ('put_u8', [('lit', 10)])]
    whole = puts and puts[0][1] and puts[0][1][0] in (P('line'), ('call', 'std::string::String::as_bytes', P('line')),
                                                      ('call', 'core::str::<impl str>::as_bytes', P('line')),
                                                      ('call', 'std::string::String::into_bytes', P('line')))
    # the terminator: the bytes appended after the payload, however they are grouped (two put_u8, one slice literal, a named constant)
    tail = []
    for nm_, a_ in puts[1:]:
        v_ = a_[0] if a_ else None
        if v_ and v_[0] == 'lit' and isinstance(v_[1], int) and nm_ == 'put_u8':
            tail.append(v_[1])
        elif v_ and v_[0] == 'lit' and isinstance(v_[1], (bytes, str)) and nm_ in ('put', 'put_slice', 'extend_from_slice'):
            tail.extend(v_[1] if isinstance(v_[1], bytes) else v_[1].encode())
        else:
            tail.append(None)
    okp = len(puts) >= 2 and tail == [13, 10] and puts[0][0] in ('put', 'put_slice', 'extend_from_slice') and whole
    if not okp:
        r5.violation('IRCLinesCodec::encode|crlf', 'the encoder does not emit exactly <payload> CR LF', loc=fe, found=str(puts)[:200])
    r5.instance('only BufferedLineStream::flush writes to the framed socket')
    for fn, e in census:
        if e.kind == 'call' and e.data['name'] in ('feed', 'send', 'flush', 'send_all', 'start_send', 'poll_flush') and \
                'tokio_util::codec::Framed<' in (e.data.get('recv_ty') or ''):
            if short_fn(fn.replace('::{closure#0}', '')) != 'flush':
                r5.violation('%s|writes-socket' % short_fn(fn), 'the framed socket is written outside BufferedLineStream::flush', loc=cx.loc(e.node))
    ffl = cx.fn('flush', 'BufferedLineStream')
    wfl = cx.walk(ffl, args=[P('self')])
    fd = [e for e in wfl.events if is_call(e, 'feed')]
    dr = [e for e in wfl.events if is_call(e, 'drain')]
    r5.instance('flush drains the buffer in order, then flushes')
    okf = len(fd) == 1 and len(dr) == 1 and fd[0].data['args'][1] == ('elem', ('call', dr[0].data['callee']) + tuple(dr[0].data['args'])) \
        and not [a for a in atoms(fd[0].pc)]
    fb = cx.fn('feed', 'BufferedLineStream')
    wfb = cx.walk(fb, args=[P('self'), P('msg')])
    pushes = [e for e in wfb.events if is_call(e, 'push') and e.data['args'] == [field(P('self'), 'buffer'), P('msg')] and e.pc == T]
    if not okf or len(pushes) != 1:
        r5.violation('BufferedLineStream|order', 'buffered lines are not appended and drained in order', loc=ffl)
    r5.instance('feed buffers the line it is given, unaltered')
    for e in wfb.events:
        if e.kind == 'call' and not e.data.get('local') and e.data.get('args') and e.data['args'][0] == P('msg') and \
                (e.data['name'] in MUTATORS or e.data['name'] in ('truncate', 'replace_range', 'make_ascii_lowercase', 'make_ascii_uppercase',
                                                                    'split_off', 'pop', 'remove', 'insert', 'insert_str', 'retain', 'drain', 'clear')) \
                and _recv_mut(e, prog):
            r5.violation('BufferedLineStream::feed|line-altered|%s' % e.data['name'], 'an outgoing line is changed (%s) between the handler and '
                         'the socket' % e.data['name'], loc=cx.loc(e.node))
        if e.kind == 'assign' and not e.data.get('init') and root_of(e.data['lhs']) == P('msg'):
            r5.violation('BufferedLineStream::feed|line-altered|assign', 'an outgoing line is changed between the handler and the socket',
                         loc=cx.loc(e.node))

    # ---------------------------------------------------------------- R13.6 free text last and colon-introduced
    r6 = cx.rule('R13.6', 'free text last, after " :"', floor=10, kind='template')
    frf = cx.fn('fmt', "reply::Reply<'a> as std::fmt::Display")
    wr = cx.walk(frf, args=[P('self'), P('f')], key='c13')
    FPARAM = P('f')

    def variant_outputs(v):
        """what Display writes for Reply::<v>, as [(events, pieces)] per feasible case: every write to the formatter on the paths of
           that variant, in order, concatenated (one `write!`, several, `write_str`, helpers taking the numeric as a parameter ..)"""
        isv = Atom(('is', P('self'), v))
        evs = [e for e in wr.events if e.kind == 'call' and e.data['name'] in ('write_fmt', 'write_str', 'write_char', 'pad')
               and e.data['args'] and e.data['args'][0] == FPARAM and any(a == ('is', P('self'), v) for a in atoms(e.pc))]
        if not evs:
            return []
        parts = tuple(('arg', i) for i in range(len(evs)))
        # a write under a further condition is in or out: express it as a conditional piece
        vals = tuple(sym.mk_ite(rename(e.pc, lambda a_: T if a_ == ('is', P('self'), v) else Atom(a_)), e.data['args'][1], ('lit', ''))
                     if len(e.data['args']) > 1 else ('lit', '') for e in evs)
        cases_ = string_cases(wr, ('fmt', parts) + vals, isv)
        return [(evs, ps) for c_, ps in cases_]

    for variant, fld in FREE_TEXT.items():
        outs = variant_outputs(variant)
        r6.instance('Reply::%s.%s' % (variant, fld))
        if not outs:
            r6.violation('Reply::fmt|%s|missing' % variant, 'no template for %s' % variant, loc=frf)
            continue
        for evs, ps in outs:
            FT = ('vfield', P('self'), variant, fld)
            if FT not in ps:
                continue        # a case of the template that does not show the field (its absence is steered by another field)
            ok = ps[-1] == FT
            if ok:
                before = ''.join(x[1] if (x[0] == 'lit' and isinstance(x[1], str)) else '\x00' for x in ps[:-1])
                colon = before.rfind(' :')
                ok = colon >= 0 and (before[colon + 2:].count('\x00') == 0 or variant == 'RplWhoReply352')
            if not ok:
                r6.violation('Reply::fmt|%s|%s' % (variant, fld), 'the free-text field %s of %s is not the last parameter introduced by " :"'
                             % (fld, variant), loc=cx.loc(evs[-1].node), template=' + '.join(show_term(x) for x in ps)[:200])
        if not any(('vfield', P('self'), variant, fld) in ps for evs, ps in outs):
            r6.violation('Reply::fmt|%s|%s' % (variant, fld), 'the free-text field %s of %s is never shown' % (fld, variant), loc=frf)
    # ---------------------------------------------------------------- R13.11 numeric / client / field coverage of every reply
    r11 = cx.rule('R13.11', 'reply templates: numeric, client, all fields', floor=100, kind='table-agreement')
    import re as _re
    for vdef in prog.adts['reply::Reply']['variants']:
        v = vdef['name']
        outs = variant_outputs(v)
        num = _re.search(r'(\d{3})$', v)
        r11.instance('Reply::%s' % v)
        if not outs or not num:
            r11.violation('Reply::fmt|%s|no-template' % v, 'reply %s has no template / no numeric in its name' % v, loc=frf)
            continue
        used = set()
        for evs, ps in outs:
            head = ps[0][1] if ps and ps[0][0] == 'lit' and isinstance(ps[0][1], str) else ''
            nonlit = [x for x in ps if not (x[0] == 'lit' and isinstance(x[1], str))]
            first = nonlit[0] if nonlit else None
            if not head.startswith(num.group(1) + ' '):
                r11.violation('Reply::fmt|%s|numeric' % v, 'reply %s is sent with the numeric %r' % (v, head[:4]), loc=cx.loc(evs[0].node))
            if first != ('vfield', P('self'), v, 'client'):
                r11.violation('Reply::fmt|%s|client' % v, 'the first parameter of reply %s is not the client' % v, loc=cx.loc(evs[0].node))
            for x in ps:
                for t in subterms(x):
                    if isinstance(t, tuple) and len(t) == 4 and t[0] == 'vfield' and t[2] == v:
                        used.add(t[3])
            # fields that only steer the template (tested in its path condition) count as used
            for e in evs:
                for t in subterms(e.data['args'][1]) if len(e.data['args']) > 1 else ():
                    if isinstance(t, tuple) and len(t) == 4 and t[0] == 'vfield' and t[2] == v:
                        used.add(t[3])
                for a in atoms(e.pc):
                    for t in subterms(a):
                        if isinstance(t, tuple) and len(t) == 4 and t[0] == 'vfield' and t[2] == v:
                            used.add(t[3])
        missing = [f['name'] for f in vdef['fields'] if f['name'] not in used]
        if missing:
            r11.violation('Reply::fmt|%s|unused-field|%s' % (v, ','.join(missing)), 'reply %s never shows its field(s) %s' % (v, ', '.join(missing)),
                          loc=frf)

    # ---------------------------------------------------------------- R13.12 the client parameter
    r12 = cx.rule('R13.12', 'client parameter of every reply', floor=120, kind='provenance')
    from .C03 import cx_census as _census
    want_client = ('call', cx.fn('client_name', 'ConnUserState'), USTATE)
    for fn_, e in _census(cx):
        if e.kind == 'adt' and e.data['adt'].endswith('reply::Reply'):
            fl = e.data['fields']
            fl = dict(fl) if not isinstance(fl, dict) else fl
            r12.instance('%s: %s' % (short_fn(fn_), e.data['variant']))
            if fl.get('client') != want_client:
                r12.violation('%s|reply-client|%s' % (short_fn(fn_.replace('::{closure#0}', '')), e.data['variant']), 'reply %s is addressed to %s, not to '
                              'the requesting connection' % (e.data['variant'], show_term(fl.get('client'))[:60]), loc=cx.loc(e.node))
    MEu = P('self')
    wcn = cx.walk(cx.fn('client_name', 'ConnUserState'), args=[MEu], key='c13cn')
    from .C03 import cases as _cases
    leaves = _cases(wcn.retval)
    r12.instance('client_name = nick, else user name, else host')
    nick_s, name_s = Atom(('is', field(MEu, 'nick'), 'Some')), Atom(('is', field(MEu, 'name'), 'Some'))
    want_leaves = [(nick_s, ('some_of', field(MEu, 'nick'))), (And(Not(nick_s), name_s), ('some_of', field(MEu, 'name'))),
                   (And(Not(nick_s), Not(name_s)), field(MEu, 'hostname'))]
    okcn = len(leaves) == 3 and all(any(l == wl and equivalent(c, wc)[0] for c, l in leaves) for wc, wl in want_leaves)
    if not okcn:
        r12.violation('ConnUserState::client_name|body', 'client_name is not (nick, else user name, else host)', loc=cx.fn('client_name', 'ConnUserState'))

    relay_templates = [('process_part', 'PART '), ('process_kick', 'KICK '), ('process_privmsg_notice', 'PRIVMSG '), ('process_privmsg_notice', 'NOTICE ')]
    for h, head in relay_templates:
        wh = cx.walk(cx.fn(h), key='census')
        found = [e for e in wh.events if e.kind == 'format' and e.data['pieces'] and e.data['pieces'][0] == head]
        r6.instance('%s template %r' % (h, head))
        okt = False
        for e in found:
            pc_ = e.data['pieces']
            if len([p for p in pc_ if not isinstance(p, str)]) >= 2:
                okt = okt or (isinstance(pc_[-2], str) and pc_[-2].endswith(' :') and not isinstance(pc_[-1], str))
        if not okt:
            r6.violation('%s|relay-template|%s' % (h, head.strip()), 'the %s relay does not put its free text last after " :"' % head.strip(), loc=cx.fn(h))

    # ---------------------------------------------------------------- R13.7 serialiser
    r7 = cx.rule('R13.7', 'relay serialiser colon condition', floor=2, kind='shape')
    fts = cx.fn('to_string_with_source')
    wts = cx.walk(fts, args=[P('self'), P('source')], key='c13')
    apps = local_muts(wts)
    colon = [e for e in apps if e.data['args'][:1] == [('lit', ' :')]]
    r7.instance('" :" before the last parameter when it is empty or contains space/tab/colon')
    okc = False
    for e in colon:
        r = repr(e.pc)
        okc = "('lit', ':')" in r and "('lit', ' ')" in r and "'empty'" in r
    if not okc:
        r7.violation('to_string_with_source|colon-condition', 'the serialiser does not introduce a last parameter that is empty or contains a '
                     'space or colon with " :" (the receiver would re-parse it differently)', loc=fts)
    r7.instance('earlier parameters joined by single spaces')
    sp = [e for e in apps if e.data['args'][:1] == [('lit', ' ')] and e.data['method'] == 'push']
    if len(sp) < 2:
        r7.violation('to_string_with_source|spaces', 'parameters are not joined by single spaces', loc=fts)

    # ---------------------------------------------------------------- R13.10 validators vs. the framing of emitted lines
    r10 = cx.rule('R13.10', 'names accepted by the validators are frameable as middle parameters', floor=8, kind='entailment')
    from .C03 import cases
    X = P('x')
    for vname in ('validate_username', 'validate_channel'):
        fv = cx.fn(vname)
        wv = cx.walk(fv, args=[X], key='c13v')
        oks = [c for c, leaf in cases(wv.retval) if isinstance(leaf, tuple) and leaf[:1] == ('ok',)]
        if not oks:
            raise AnchorLost('%s: no Ok leaf found' % vname)
        okc = Or(*oks)
        needs = [('empty', 'the empty string', Not(Atom(('empty', X))))]
        for ch, what in ((' ', 'a space'), (',', 'a comma'), (':', 'a colon')):
            needs.append((what.split()[-1], 'a name containing ' + what, Not(has(X, ('lit', ch)))))
        # a string that has a first / last / next element is not empty
        ax = T
        for a in atoms(okc):
            if a[0] == 'is' and a[2] == 'Some' and isinstance(a[1], tuple) and a[1][:1] == ('call',) and \
                    a[1][1].split('::')[-1] in ('first', 'last', 'next', 'nth', 'split_first', 'split_last', 'next_back') and mentions(a[1], X):
                ax = And(ax, Or(Not(Atom(a)), Not(Atom(('empty', X)))))
        for tag, what, goal in needs:
            r10.instance('%s rejects %s' % (vname, what))
            ok, m = entails(okc, goal, ax)
            if not ok:
                r10.violation('%s|accepts-%s' % (vname, tag), '%s accepts %s: given as a trailing parameter it becomes a nick / channel / user name '
                              'that the server then emits as a middle parameter, so every line naming it is re-parsed differently by its '
                              'receiver' % (vname, what), loc=fv)

    # ---------------------------------------------------------------- R13.8 trailing delimiter idiom
    r8 = cx.rule('R13.8', 'trailing-parameter delimiter idiom', floor=1, kind='idiom')
    ffs = cx.fn('from_shared_str')
    wfs = cx.walk(ffs, args=[P('input')], key='c13')
    r13 = cx.rule('R13.13', 'only leading blanks are trimmed', floor=1, kind='census')
    trims = [e for e in wfs.events if e.kind == 'call' and (e.data.get('name') or '').startswith('trim')]
    r13.instance('trim calls in from_shared_str: %s' % [e.data['name'] for e in trims])
    for e in trims:
        if e.data['name'] not in ('trim_start', 'trim_start_matches', 'trim_left', 'trim_left_matches'):
            r13.violation('from_shared_str|trims-end|%s' % e.data['name'], '%s() removes blanks at the end of the line: a trailing parameter '
                          'ending in blanks (a message text) is executed and relayed shortened' % e.data['name'], loc=cx.loc(e.node))
    # ... and the caller hands the decoded line over as it came off the codec
    nsite = 0
    for fn, e in census:
        if e.kind == 'call' and e.data.get('local') and e.data['name'] == 'from_shared_str' and e.data['args']:
            nsite += 1
            t = e.data['args'][0]
            while isinstance(t, tuple) and t and t[0] in ('some_of', 'field', 'vfield', 'idx', 'ok', 'some'):
                t = t[1]
            r13.instance('%s parses %s' % (short_fn(fn), show_term(e.data['args'][0])[:60]))
            if isinstance(t, tuple) and t and t[0] == 'call' and t[1].split('::')[-1] not in ('poll_fn', 'next', 'recv', 'read_line'):
                r13.violation('%s|line-altered|%s' % (short_fn(fn.replace('::{closure#0}', '')), t[1].split('::')[-1]),
                              'the received line is passed through %s() before it is parsed: what is executed and relayed is not '
                              'what the client sent' % t[1].split('::')[-1], loc=cx.loc(e.node))
    if nsite == 0:
        raise AnchorLost('no call of Message::from_shared_str found')

    # ---------------------------------------------------------------- R13.14 command fields are the message parameters themselves
    # (a field that is relayed through the original message - NICK, PRIVMSG text, TOPIC - must be what the handler applies)
    r14 = cx.rule('R13.14', 'command fields are taken from the parameters verbatim', floor=30, kind='provenance')
    fpm = cx.fn('parse_from_message')
    wpm = cx.walk(fpm, args=[P('message')], key='c13pm')
    ALTER = ('trim', 'trim_end', 'trim_start', 'trim_matches', 'trim_end_matches', 'trim_start_matches', 'to_lowercase', 'to_ascii_lowercase',
             'to_uppercase', 'replace', 'replacen', 'truncate', 'strip_prefix', 'strip_suffix', 'split_at', 'char_indices', 'get')
    PARAMS = field(P('message'), 'params')

    def altered(t, out):
        if not isinstance(t, tuple) or not t:
            return
        if t[0] == 'ite':
            altered(t[2], out)
            altered(t[3], out)
            return
        if t[0] == 'call' and t[1].split('::')[-1] in ALTER and mentions(t, PARAMS):
            out.append(t[1].split('::')[-1])
        if t[0] == 'index' and isinstance(t[1], tuple) and t[1][:1] == ('index',) and t[1][1] == PARAMS and \
                isinstance(t[2], tuple) and t[2][:1] == ('adt',) and 'Range' in t[2][1]:
            out.append('slice')
        for x in t[1:]:
            altered(x, out)
    for c_, leaf in cases(wpm.retval):
        if not (isinstance(leaf, tuple) and leaf[:1] == ('ok',) and isinstance(leaf[1], tuple) and leaf[1][:1] == ('adt',)):
            continue
        variant = leaf[1][2]
        for fname, fval in leaf[1][3]:
            r14.instance('%s.%s' % (variant, fname))
            how = []
            altered(fval, how)
            if how:
                r14.violation('parse_from_message|%s.%s|%s' % (variant, fname, how[0]), 'Command::%s.%s is not the parameter as sent (%s): the '
                              'handler applies a different value than the one relayed in the original message' % (variant, fname, how[0]), loc=fpm)

    # ... and a list taken from a parameter is not edited afterwards (de-duplicated, sorted, shortened): lists of one command are
    # paired by position (JOIN channels / keys, MODE letters / arguments)
    COLL_ALTER = ('dedup', 'dedup_by', 'dedup_by_key', 'sort', 'sort_unstable', 'sort_by', 'sort_by_key', 'retain', 'remove', 'truncate', 'pop',
                  'swap_remove', 'reverse', 'drain', 'clear', 'insert')
    from_params = {e.data['lhs'] for e in wpm.events if e.kind == 'assign' and e.data.get('init') and mentions(e.data['rhs'], PARAMS)}
    for e in wpm.events:
        if e.kind == 'call' and not e.data.get('local') and e.data['name'] in COLL_ALTER and e.data['args'] and \
                (e.data['args'][0] in from_params or (mentions(e.data['args'][0], PARAMS) and e.data['args'][0] != PARAMS
                                                      and _recv_mut(e, prog))):
            mv = e.data['args'][0]
            owner = [(leaf[1][2], fname) for c_, leaf in cases(wpm.retval)
                     if isinstance(leaf, tuple) and leaf[:1] == ('ok',) and isinstance(leaf[1], tuple) and leaf[1][:1] == ('adt',)
                     for fname, fval in leaf[1][3] if mentions(fval, mv)]
            v_, f_ = owner[0] if owner else ('?', show_term(mv))
            r14.violation('parse_from_message|%s.%s|%s' % (v_, f_, e.data['name']), 'the list Command::%s.%s is edited (%s) after it was taken '
                          'from the parameter: its items no longer line up with the list they are paired with by position' % (v_, f_, e.data['name']),
                          loc=cx.loc(e.node))

    r9 = cx.rule('R13.9', 'offset coordinates of re-sliced pieces', floor=0, kind='arithmetic')
    n9 = check_offset_coordinates(cx, r9, wfs, ffs)
    if n9 == 0:
        r9.instance('from_shared_str re-slices no searched piece by its length (nothing to check)')
    splits = [e for e in wfs.events if e.kind == 'call' and e.data['name'] in ('split_once', 'find', 'splitn', 'split', 'rsplit_once', 'rfind')
              and len(e.data['args']) >= 2 and e.data['args'][1][0] == 'lit' and ':' in str(e.data['args'][1][1])]
    r8.instance('delimiter searches: %s' % [(e.data['name'], e.data['args'][1][1]) for e in splits])
    if not splits:
        r8.undecide('the trailing parameter is not split by a recognised idiom (split_once/find on a literal): undecided')
    for e in splits:
        patt = e.data['args'][1][1]
        if patt == ':' and not _tokenised(e.data['args'][0]):
            r8.violation('from_shared_str|bare-colon-delimiter|%s' % e.data['name'], 'the trailing parameter is split off at the first bare \':\' of '
                         'the untokenised line: "PRIVMSG #a:b hi" is read as target "#a", text "b hi" (a colon inside a middle parameter must '
                         'not start the trailing parameter; the delimiter is " :")', loc=cx.loc(e.node))
        elif patt not in (' :', ':'):
            r8.undecide('delimiter literal %r not classified' % patt)


def _piece_origin(x):
    """x is a leading piece (split_once(..).0 / find result prefix) of ('index', base, RangeFrom(start=a)): return (base, a)"""
    t = x
    for _ in range(6):
        if not isinstance(t, tuple) or not t:
            return None
        if t[0] == 'field' and t[2] == '0':
            t = t[1]
        elif t[0] == 'some_of':
            t = t[1]
        elif t[0] == 'call' and t[1].split('::')[-1] in ('split_once', 'rsplit_once') and len(t) >= 3:
            s = t[2]
            if isinstance(s, tuple) and s[0] == 'index' and isinstance(s[2], tuple) and s[2][0] == 'adt' and s[2][2] == 'RangeFrom':
                return s[1], dict(s[2][3]).get('start')
            return None
        else:
            return None
    return None


def check_offset_coordinates(cx, rule, w, fn):
    n = 0
    for e in w.events:
        if e.kind != 'index':
            continue
        base, idx = e.data['base'], e.data['index']
        if not (isinstance(idx, tuple) and idx[0] == 'adt' and idx[1].startswith('std::ops::Range')):
            continue
        for bound, term in dict(idx[3]).items():
            lens = [t for t in subterms(term) if isinstance(t, tuple) and t and t[0] == 'len' and _piece_origin(t[1]) is not None]
            other = [t for t in subterms(term) if isinstance(t, tuple) and t and ((t[0] == 'len' and _piece_origin(t[1]) is None and t[1] != base)
                                                                                   or (t[0] == 'call' and t[1].split('::')[-1] in ('find', 'rfind', 'position')))]
            for t in other:
                org = [x for x in subterms(t) if isinstance(x, tuple) and x and x[0] == 'index' and x[1] == base
                       and isinstance(x[2], tuple) and x[2][0] == 'adt' and x[2][2] == 'RangeFrom' and dict(x[2][3]).get('start') != ('lit', 0)]
                if org:
                    rule.undecide('%s: a slice bound of the line uses %s, computed inside a sub-slice starting at a non-zero offset; '
                                  'the coordinate rule does not know this idiom' % (short_fn(fn), show_term(t)[:60]))
            for L in lens:
                ob, a = _piece_origin(L[1])
                if ob != base:
                    continue
                n += 1
                rule.instance('%s: %s of a slice of the line = len(piece) + offset of the searched sub-slice' % (short_fn(fn), bound))
                ok = a == ('lit', 0) or term in (('add', L, a), ('add', a, L))
                if not ok:
                    rule.violation('%s|offset-coordinates|%s' % (short_fn(fn), bound), 'the length of a piece found in line[%s..] is used as the %s of a '
                                   'slice of the whole line without adding %s: the slice is misplaced by that many bytes (a line with a '
                                   ':source prefix loses the last character before the trailing parameter)'
                                   % (show_term(a)[:40], bound, show_term(a)[:40]), loc=cx.loc(e.node))
    return n


def _tokenised(t):
    """is the searched text a single whitespace-delimited token (then starts_with/leading ':' logic is fine)?"""
    r = repr(t)
    return 'split_ascii_whitespace' in r or 'split_whitespace' in r or "'elem'" in r


def _reachable_with(pc, a):
    return sat(And(pc, Atom(a))) is not None and entails(pc, Atom(a))[0]
