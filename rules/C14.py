"""C14 — Mask matching is exact glob semantics and always terminates with an answer.

Decided (structural part only): the matcher and the normaliser cannot abort (every subtraction
guarded, every str slice at an in-bounds character boundary), every loop has a progress witness,
list masks are normalised before they are stored / announced / compared, normalisation produces
the three documented completions, and every call of the matcher has a mask-role first and a
text-role second argument.  That the function computes glob matching for every pair of strings is
a property of runtime values and is not decided by this technique.
"""
from analysis import oblig
from .common import *  # noqa: F401,F403
from .panics import Discharger, base_fn
from .C03 import cx_census
from .C05 import site_key

MATCH_FNS = ('match_wildcard', 'starts_single_wilcards', 'normalize_sourcemask', 'banned')


def P(n):
    return ('param', n)


def check(cx):
    ck = cx.check
    ck.decides += [
        'R14.1 "always an answer": every panic-capable site of match_wildcard / starts_single_wilcards / normalize_sourcemask / ChannelModes::banned is discharged (subtractions guarded, str slices at proven in-bounds character boundaries)',
        'R14.2 termination: every loop of the matcher re-assigns its controlling variable to a proper suffix / increments a bounded counter on every path',
        'R14.3 list masks are normalised before store, announce and compare; normalize_sourcemask yields mask@*, nick!*@host, mask!*@* in its three cases',
        'R14.5 comparison unit: the matcher walks characters - a byte-wise walk is accepted only together with a UTF-8 boundary computation - so that "?" cannot consume part of a character',
        'R14.4 caller roles: every match_wildcard call has a mask (list element, configured mask, WHO/WHOIS pattern) first and a text (source, nick, realname) second; masks are never compared with ==',
    ]
    ck.does_not_decide += ['that match_wildcard computes glob matching for every (mask, text) pair (beyond R14.5: the unit a ? consumes is a character)',
                           'case sensitivity beyond "no case-folding call appears"']
    prog = cx.prog
    D = Discharger(cx, prog)

    r1 = cx.rule('R14.1', 'matcher/normaliser cannot abort', floor=6, kind='obligation')
    for name in MATCH_FNS:
        fn = cx.fn(name, 'ChannelModes' if name == 'banned' else None)
        w = cx.walk(fn, key='census')
        for s in oblig.sites_of(prog, fn, w):
            how, why = D.discharge(s, w)
            r1.instance('%s %s [%s]' % (site_key(s), prog.loc(s.ev.node), how or 'UNDISCHARGED'))
            if not how:
                r1.violation(site_key(s), '%s at %s can abort the comparison: %s' % (site_key(s).replace('|', ' '), prog.loc(s.ev.node), why),
                             loc=prog.loc(s.ev.node))

    # ---------------------------------------------------------------- R14.2 termination
    r2 = cx.rule('R14.2', 'loop progress witnesses', floor=2, kind='termination')
    fm = cx.fn('match_wildcard')
    wm = cx.walk(fm, args=[P('pattern'), P('text')], key='c14')
    body = prog.bodies[fm]['body']
    loops = [n for n in ir.walk(body) if n.get('k') == 'Loop']
    r2.instance('loops in match_wildcard: %d' % len(loops))
    for fl in [n for n in ir.walk(body) if n.get('k') == 'For']:
        r2.instance('for loop at %s: one iteration per element of a finite iterator' % prog.loc(fl))
    if len(loops) != 2 and False:
        r2.undecide('match_wildcard has %d loops (2 when the witnesses were frozen); witnesses re-derived below' % len(loops))
    for lp in loops:
        cond_vars = loop_condition_vars(lp)
        if not cond_vars:
            r2.violation('match_wildcard|loop-without-condition|%s' % prog.loc(lp), 'a loop of the matcher has no exit condition on a variable',
                         loc=prog.loc(lp))
            continue
        ok, why = progress(lp, cond_vars)
        r2.instance('loop at %s over %s: %s' % (prog.loc(lp), ','.join(sorted(n for n, _ in cond_vars)), why))
        if not ok:
            r2.violation('match_wildcard|no-progress|%s' % ','.join(sorted(n for n, _ in cond_vars)), 'a loop of the matcher controlled by %s '
                         'does not provably make progress on every path: %s' % (','.join(sorted(n for n, _ in cond_vars)), why), loc=prog.loc(lp))

    # ---------------------------------------------------------------- R14.5 comparison unit
    r5 = cx.rule('R14.5', 'the matcher compares characters, not bytes', floor=2, kind='type')
    BYTE_VIEWS = ('as_bytes', 'bytes', 'as_ptr', 'as_bytes_mut', 'into_bytes')
    BOUNDARY_APIS = ('is_char_boundary', 'chars', 'char_indices', 'len_utf8', 'from_utf8', 'floor_char_boundary', 'ceil_char_boundary')
    for name in ('match_wildcard', 'starts_single_wilcards'):
        fn = cx.fn(name)
        body = prog.bodies[fn]
        byte_views, boundary, byte_lits = [], [], []
        harmless = set()
        for n in ir.walk(body['body']):
            # a byte view that is only measured (len / is_empty) does not make bytes the comparison unit
            if n.get('k') in ('Call', 'MethodCall') and (ir.callee(n) or '').split('::')[-1] in ('len', 'is_empty') and n.get('args'):
                a0 = ir.strip(n['args'][0])
                if a0.get('k') in ('Call', 'MethodCall') and (ir.callee(a0) or '').split('::')[-1] in BYTE_VIEWS:
                    harmless.add(id(a0))
        for n in ir.walk(body['body']):
            if n.get('k') in ('Call', 'MethodCall'):
                c = (ir.callee(n) or '').split('::')[-1]
                if c in BYTE_VIEWS and id(n) not in harmless:
                    byte_views.append(n)
                if c in BOUNDARY_APIS:
                    boundary.append(n)
            if n.get('k') == 'Lit' and prog.ty(n) == 'u8' and n.get('v') in (63, 42, '63', '42'):
                byte_lits.append(n)
        ptys = [prog.types[p['ty']] for p in (body.get('params') or [])]
        byte_params = [t for t in ptys if '[u8]' in t or 'Vec<u8>' in t]
        r5.instance('%s: byte views %d, byte wildcard literals %d, byte-slice parameters %d, boundary computations %d'
                    % (name, len(byte_views), len(byte_lits), len(byte_params), len(boundary)))
        if (byte_views or byte_lits or byte_params) and not (boundary and not byte_params and not byte_lits):
            where = (byte_views + byte_lits)[0] if (byte_views + byte_lits) else None
            r5.violation('%s|byte-unit' % name, '%s walks the mask/text byte-wise without a character-boundary computation: "?" then matches '
                         'one byte, i.e. a part of a multi-byte character' % name, loc=prog.loc(where) if where else fn)

    # ---------------------------------------------------------------- R14.3 normalisation
    r3 = cx.rule('R14.3', 'normalisation before store / announce / compare', floor=10, kind='provenance')
    fnorm = cx.fn('normalize_sourcemask')
    MASK = P('mask')
    wn = cx.walk(fnorm, args=[MASK], key='c14')
    excl = is_some(('call', 'core::str::<impl str>::find', MASK, ('lit', '!')))
    at_any = is_some(('call', 'core::str::<impl str>::find', MASK, ('lit', '@')))
    apps = [e for e in wn.events if e.kind == 'local_mut' and e.data['method'] in ('add_assign', 'push_str')]

    def seq_under(cond):
        return [e.data['args'][0] for e in apps if sat(And(e.pc, cond)) is not None and entails(cond, e.pc)[0]]
    find_excl = ('some_of', ('call', 'core::str::<impl str>::find', MASK, ('lit', '!')))
    find_at = ('some_of', ('call', 'core::str::<impl str>::find', MASK, ('lit', '@')))
    tail_after_excl = ('index', MASK, ('adt', 'std::ops::RangeFrom', 'RangeFrom', (('start', ('add', find_excl, ('lit', 1))),)))
    at_after = is_some(('call', 'core::str::<impl str>::find', tail_after_excl, ('lit', '@')))
    cases = [
        ('nick!user  -> nick!user@*', And(excl, Not(at_after)), [MASK, ('lit', '@*')]),
        ('nick!user@host unchanged', And(excl, at_after), [MASK]),
        ('nick@host -> nick!*@host', And(Not(excl), at_any),
         [('index', MASK, ('adt', 'std::ops::RangeTo', 'RangeTo', (('end', find_at),))), ('lit', '!*'),
          ('index', MASK, ('adt', 'std::ops::RangeFrom', 'RangeFrom', (('start', find_at),)))]),
        ('nick -> nick!*@*', And(Not(excl), Not(at_any)), [MASK, ('lit', '!*@*')]),
    ]
    FIND = 'core::str::<impl str>::find'

    def norm_atom(a):
        # `s.contains(c)` says the same as `s.find(c).is_some()`
        if a[0] == 'is' and a[2] == 'Some' and a[1][0] == 'get' and root_of(a[1][1]) == MASK and a[1][2][0] == 'lit':
            return Atom(('is', ('call', FIND, a[1][1], a[1][2]), 'Some'))
        return Atom(a)

    def norm_piece(t):
        # the two halves of split_at(at) are the slices ..at and at..
        if isinstance(t, tuple) and t and t[0] == 'field' and t[2] in ('0', '1') and isinstance(t[1], tuple) and t[1][:1] == ('call',) \
                and t[1][1].split('::')[-1] == 'split_at' and len(t[1]) >= 4:
            base, at = t[1][2], t[1][3]
            if t[2] == '0':
                return ('index', base, ('adt', 'std::ops::RangeTo', 'RangeTo', (('end', at),)))
            return ('index', base, ('adt', 'std::ops::RangeFrom', 'RangeFrom', (('start', at),)))
        return t

    def pieces_of(leaf, cond):
        """the string a result leaf denotes, as a list of concatenated pieces"""
        if isinstance(leaf, tuple) and leaf and leaf[0] == 'local':
            return [norm_piece(e.data['args'][0]) for e in apps if e.data['local'] == leaf and sat(And(rename(e.pc, norm_atom), cond)) is not None
                    and entails(cond, rename(e.pc, norm_atom))[0]]
        if isinstance(leaf, tuple) and leaf and leaf[0] == 'fmt':
            out = []
            for pc_ in leaf[1]:
                if isinstance(pc_, str):
                    if pc_:
                        out.append(('lit', pc_))
                else:
                    out.append(norm_piece(leaf[2 + pc_[1]]))
            return out
        return [norm_piece(leaf)]

    def merge_lits(ps):
        out = []
        for x in ps:
            if out and x[0] == 'lit' and out[-1][0] == 'lit' and isinstance(x[1], str) and isinstance(out[-1][1], str):
                out[-1] = ('lit', out[-1][1] + x[1])
            else:
                out.append(x)
        return out
    rv = wn.retval
    for desc, cond, want in cases:
        r3.instance('normalize_sourcemask: ' + desc)
        gots = []
        for c_, leaf in term_cases(rv) if rv is not None else []:
            c_ = rename(c_, norm_atom)
            if sat(And(c_, cond)) is not None:
                gots.append(merge_lits(pieces_of(leaf, And(cond, c_))))
        if not gots or any(g != merge_lits(want) for g in gots):
            r3.violation('normalize_sourcemask|case|' + desc.split(' ')[0], 'normalisation case "%s" builds %s' % (
                desc, ' | '.join(' + '.join(show_term(x) for x in g) for g in gots) or 'nothing'), loc=fnorm)
    # use sites in MODE: stored, removed, announced and ban_info-keyed values are the normalised argument
    fc = cx.fn('process_mode_channel')
    CH = P('chanobj')
    wc = cx.walk(fc, args=[SELF, CONN, P('users'), CH, P('target'), P('modes'), P('chum')], key='c08')
    for e, x in effects(wc, prog, roots=(CH,)):
        names = [n for n in path_of(x['place']) if n != '[]']
        if x['op'] in ('insert', 'remove') and names and names[-1] in ('ban', 'exception', 'invite_exception', 'ban_info'):
            v = x['args'][0]
            r3.instance('%s %s(%s)' % (names[-1], x['op'], show_term(v)[:50]))
            if not (v[0] == 'call' and v[1].endswith('normalize_sourcemask')):
                r3.violation('process_mode_channel|unnormalised|%s|%s' % (names[-1], x['op']), 'a mask is %s %s without normalisation: %s'
                             % ('added to' if x['op'] == 'insert' else 'removed from', names[-1], show_term(v)[:60]), loc=cx.loc(e.node))
    anns = [e for e in wc.events if e.kind == 'local_mut' and e.data['method'] in ('add_assign', 'push_str')]
    for i, e in enumerate(anns):
        a = e.data['args'][0]
        if a[0] == 'lit' and isinstance(a[1], str) and a[1].strip()[-1:] in ('b', 'e', 'I') and a[1].strip()[:1] in '+-' and i + 1 < len(anns):
            nxt = anns[i + 1].data['args'][0]
            r3.instance('announced mask after %r' % a[1])
            if not (nxt[0] == 'call' and nxt[1].endswith('normalize_sourcemask')):
                r3.violation('process_mode_channel|announce-unnormalised|%s' % a[1].strip(), 'the mask announced after %r is not the normalised '
                             'one' % a[1], loc=cx.loc(anns[i + 1].node))

    # ---------------------------------------------------------------- R14.4 caller roles
    r4 = cx.rule('R14.4', 'mask/text roles at every match_wildcard call', floor=5, kind='provenance')
    census = cx_census(cx)

    def mask_role(t):
        if t[0] == 'elem' and any(n in ('ban', 'exception', 'invite_exception') for n in path_of(t[1])):
            return 'channel list mask'
        if t[0] == 'some_of' and path_of(t[1])[-1:] == ['mask'] and ('config' in path_of(t[1])):
            return 'configured mask'
        if t == P('mask'):
            return 'WHO mask'
        if t == ('elem', P('nickmasks')):
            return 'WHOIS nick mask'
        return None

    def text_role(t):
        if path_of(t)[-1:] == ['source'] or t == P('source'):
            return 'nick!user@host'
        if t == ('elem', ('keys', USERS)):
            return 'registered nick'
        if path_of(t)[-1:] == ['realname']:
            return 'real name'
        return None
    def deep_atoms_(f):
        out = []
        for a in atoms(f):
            out.append(a)
            if a[0] == 'any' and isinstance(a[2], tuple):
                out.extend(deep_atoms_(a[2]))
        return out

    def choices(t):
        """every value the argument can take: the cases of a conditional expression, the members of a literal table the
           call is made for in turn (`[a, b, c].iter().any(|x| match_wildcard(m, x))`)"""
        out = []
        for c_, l in term_cases(t):
            if l[0] == 'elem' and isinstance(l[1], tuple) and l[1][:1] == ('array',) and len(l[1]) > 1:
                for m_ in l[1][1:]:
                    out.extend((And(c_, c2), l2) for c2, l2 in choices(m_))
            else:
                out.append((c_, l))
        return out
    for fn, e in census:
        if e.kind == 'call' and e.data.get('local') and e.data['name'] == 'match_wildcard':
            a = e.data['args']
            # an argument chosen by a conditional expression: every feasible choice must have the role
            mrs = [mask_role(l) for c_, l in choices(a[0]) if sat(And(e.pc, c_)) is not None]
            trs = [text_role(l) for c_, l in choices(a[1]) if sat(And(e.pc, c_)) is not None]
            mr = mrs[0] if mrs and all(x is not None for x in mrs) else None
            tr = trs[0] if trs and all(x is not None for x in trs) else None
            r4.instance('%s: match_wildcard(%s, %s)' % (base_fn(fn), mr, tr))
            if mr is None or tr is None:
                r4.violation('%s|roles|%s' % (base_fn(fn), show_term(a[0])[:40]), 'match_wildcard is called with (%s, %s): the first argument must '
                             'be a mask, the second the text it is compared with' % (show_term(a[0])[:50], show_term(a[1])[:50]), loc=cx.loc(e.node))
    # a match is decided by the matcher alone: it is not skipped because of what the mask looks like ('*' / '?' may stand for any
    # character, separators included); the only syntactic test in front of it is "has a wildcard at all"
    for fn, e in census:
        if e.kind == 'call' and e.data.get('local') and e.data['name'] == 'match_wildcard':
            m_ = e.data['args'][0]
            for a in deep_atoms_(e.pc):
                if a[0] == 'is' and isinstance(a[1], tuple) and a[1][:1] == ('get',) and a[1][1] == m_ and isinstance(a[1][2], tuple) \
                        and a[1][2][:1] == ('lit',) and a[1][2][1] not in ('*', '?'):
                    r4.violation('%s|mask-precondition|%s' % (base_fn(fn), a[1][2][1]), 'whether the mask is matched against %s depends on the '
                                 'mask containing %r: a mask whose wildcards cover that character is not matched' % (
                                     show_term(e.data['args'][1])[:40], a[1][2][1]), loc=cx.loc(e.node))
    # masks compared with == / contains instead of the matcher
    def deep_atoms(f):
        out = []
        for a in atoms(f):
            out.append(a)
            if a[0] == 'any' and isinstance(a[2], tuple):
                out.extend(deep_atoms(a[2]))
        return out
    for fn, e in census:
        for a in deep_atoms(e.pc):
            if a[0] == 'eq' and any(mask_role(x) in ('channel list mask', 'configured mask') for x in a[1:] if isinstance(x, tuple)):
                r4.violation('%s|mask-equality' % base_fn(fn), 'a mask is compared by equality instead of match_wildcard', loc=cx.loc(e.node))
            if a[0] == 'is' and a[1][0] == 'get' and path_of(a[1][1])[-1:] in (['ban'], ['exception'], ['invite_exception']) \
                    and path_of(a[1][2])[-1:] == ['source']:
                r4.violation('%s|mask-literal-lookup' % base_fn(fn), 'a source is looked up literally in a mask list instead of being matched',
                             loc=cx.loc(e.node))


def loop_condition_vars(lp):
    """variables the loop's exit test depends on: `loop { if cond {..} else { break } }`"""
    b = lp['body']
    while b.get('k') == 'Block' and not b.get('stmts') and 'expr' in b:
        b = b['expr']
    node = b
    if node.get('k') == 'Block':
        cands = list(node.get('stmts', [])) + ([node['expr']] if 'expr' in node else [])
        node = cands[0] if cands else node
    if node.get('k') != 'If':
        return set()
    return {(n['n'], n['v']) for n in ir.walk(node['cond']) if n.get('k') == 'Var'}


def progress(lp, cond_vars):
    """a controlling variable is, on every path through the body that continues the loop, either
       re-assigned to a sub-slice expression of itself starting at a positive offset / to the empty tail,
       or incremented by a positive literal (with the loop condition bounding it from above)"""
    b = lp['body']
    while b.get('k') == 'Block' and not b.get('stmts') and 'expr' in b:
        b = b['expr']
    ifn = b
    if ifn.get('k') == 'Block':
        cands = list(ifn.get('stmts', [])) + ([ifn['expr']] if 'expr' in ifn else [])
        ifn = cands[0]
    body = ifn['then']
    ids = {v for _, v in cond_vars}

    def always_assigns(n):
        """does every path through n that does not leave the loop/function assign a controlling variable progressively?"""
        k = n.get('k')
        if k == 'Block':
            for s in n.get('stmts', []) + ([n['expr']] if 'expr' in n else []):
                if always_assigns(s):
                    return True
            return False
        if k == 'If':
            t = always_assigns(n['then'])
            e = always_assigns(n['else']) if 'else' in n else False
            return t and e
        if k in ('Return', 'Break'):
            return True
        if k == 'AssignOp' and n['op'].startswith('Add'):
            l = ir.strip(n['l'])
            r = ir.strip(n['r'])
            return l.get('k') == 'Var' and l['v'] in ids and r.get('k') == 'Lit' and isinstance(r.get('val'), int) and r['val'] > 0
        if k == 'Assign':
            l = ir.strip(n['l'])
            if l.get('k') == 'Var' and l['v'] in ids:
                return True
        if k == 'Match':
            return all(always_assigns(a['body']) for a in n['arms'])
        return False
    ok = always_assigns(body)
    if not ok:
        return False, 'some path through the body neither leaves the loop nor advances the controlling variable'
    # re-assignments must shrink: the assigned value derives from a tuple/slice built from the variable itself
    return True, 'every continuing path re-assigns/increments the controlling variable'
