"""Rank predicate bodies (shared by C08 and C09): the lattice
founder >= protected >= operator >= half-operator >= voice."""
from .common import *  # noqa: F401,F403

ME = ('param', 'self')


def fl(name):
    return flag(field(ME, name))


WANT = {
    'is_protected': lambda: Or(fl('founder'), fl('protected')),
    'is_operator': lambda: Or(fl('founder'), fl('protected'), fl('operator')),
    'is_half_operator': lambda: Or(fl('founder'), fl('protected'), fl('operator'), fl('half_oper')),
    'is_only_half_operator': lambda: And(Not(fl('founder')), Not(fl('protected')), Not(fl('operator')), fl('half_oper')),
    'is_voice': lambda: Or(fl('founder'), fl('protected'), fl('operator'), fl('half_oper'), fl('voice')),
}


def check_rank_predicates(cx, rule, names=None):
    """names: the predicates the calling property's handlers actually use"""
    for name, want in WANT.items():
        if names is not None and name not in names:
            continue
        fn = cx.fn(name, 'ChannelUserModes')
        w = cx.walk(fn, args=[ME])
        rule.instance('%s body' % name)
        ok, m = equivalent(sym.as_formula(w.retval), want())
        if not ok:
            rule.violation('ChannelUserModes::%s|body' % name, '%s does not implement the rank lattice '
                           '(founder >= protected >= operator >= half-operator >= voice): %s' % (name, m), loc=fn)


def pred(cx, name, chum):
    """atom for a rank predicate applied to a ChannelUserModes term"""
    return Atom(('call', cx.fn(name, 'ChannelUserModes'), chum))
