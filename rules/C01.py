"""C01 — Messages reach exactly the addressed audience, once, truly attributed.

Decided: the shape of the fan-out in process_privmsg_notice (who can receive, sender skipped,
targets de-duplicated, copies per receiver, attribution and payload provenance), the status
prefix <-> target-type bit <-> rank-set table, the single consumer of a user's queue.
"""
from .common import *  # noqa: F401,F403
from .msg import model, V, T_EL, NOTICE, RANKS, TARGETS, TEXT
from .C03 import cx_census

PREFIX_CHAR = {'~': 'founders', '&': 'protecteds', '@': 'operators', '%': 'half_operators', '+': 'voices'}
FLAG_FIELD = {'founders': 'founder', 'protecteds': 'protected', 'operators': 'operator', 'half_operators': 'half_oper',
              'voices': 'voice'}


def check(cx):
    ck = cx.check
    ck.decides += [
        'R1.1 every cross-user send of the handler goes to users[k] with k drawn from the addressed channel\'s member map, from the rank set matching the status prefix bit, or k = the addressed nick',
        'R1.2 channel fan-outs skip the sender',
        'R1.3 the target loop iterates a set-typed (de-duplicated) collection of the given targets',
        'R1.4 no receiver can be reached by two fan-outs for one target',
        'R1.5 every copy is prefixed with the sender\'s own source and carries "PRIVMSG|NOTICE <target> :<text>" of exactly the given target and text',
        'R1.6 no other send site exists in the handler; a user\'s queue is written only by User::send_* and read only by the owner\'s receiver arm, which forwards the received string unchanged',
        'R1.8 the source string is "<nick>!~<user>@<host>" built from the connection\'s current fields, is recomputed by every setter of those fields, and a User\'s copy is only ever taken from its connection\'s string',
        'R1.9 the rank sets the prefixed fan-outs iterate name members only: established empty / {creator} by both channel constructors (C16 R16.1/R16.3) and kept in step with the member map by every mutator (C04 R4.1/R4.4)',
        'R1.10 (imported) the tokeniser hands the target and the text over unchanged: split at " :", offsets in the right coordinates, only leading blanks trimmed (C13 R13.8/R13.9/R13.13)',
        'R1.7 status prefix characters, target-type bits, rank sets and rank flags agree (get_privmsg_target_type, fan-out guards, ChannelUserModes::to_string)',
    ]
    ck.does_not_decide += ['that Channel.users equals the true membership after an arbitrary history (C04 decides the structural '
                           'part)', 'delivery order across receivers', 'socket-level delivery']
    prog = cx.prog
    M = model(cx)
    w = M.w
    fan = M.fanouts()

    r1 = cx.rule('R1.1', 'audience provenance of every send', floor=3, kind='provenance')
    r2 = cx.rule('R1.2', 'sender skipped in channel fan-outs', floor=2, kind='required-guard')
    r5 = cx.rule('R1.5', 'attribution and payload', floor=4, kind='provenance')
    want_payload = sym.mk_ite(Atom(('truth', NOTICE)),
                              ('fmt', ('NOTICE ', ('arg', 0), ' :', ('arg', 1)), T_EL, TEXT),
                              ('fmt', ('PRIVMSG ', ('arg', 0), ' :', ('arg', 1)), T_EL, TEXT))
    for e, s, coll, setname, k in fan:
        desc = 'send to %s' % show_term(s['to'])
        r1.instance(desc)
        if coll is None:
            # direct message: users[target] under "not a channel target"
            f, unk = M.abstract(e.pc)
            if s['to'] == user(T_EL):
                ok, m = entails(f, And(Not(V('ischan')), V('user_exists')))
                if not ok:
                    r1.violation('process_privmsg_notice|direct-send-guard', 'direct copy is sent although the target is a channel name '
                                 'or no such user exists', loc=cx.loc(e.node))
            else:
                r1.violation('process_privmsg_notice|foreign-audience|%s' % show_term(s['to']),
                             'a copy is sent to %s, which is neither a member/rank-holder of the addressed channel nor the addressed nick'
                             % show_term(s['to']), loc=cx.loc(e.node))
        else:
            f, unk = M.abstract(e.pc)
            if setname is None:
                ok, m = entails(f, V('nobit_ChannelAllSpecial'))
                if not ok:
                    r1.violation('process_privmsg_notice|members-fanout-for-prefixed', 'a status-prefixed target is fanned out to all members',
                                 loc=cx.loc(e.node))
            else:
                bit = 'nobit_' + RANKS[setname]
                ok, m = entails(f, Not(V(bit)))
                if not ok:
                    r1.violation('process_privmsg_notice|rank-fanout-bit|' + setname, 'fan-out over %s is not guarded by the %s bit of '
                                 'the target' % (setname, RANKS[setname]), loc=cx.loc(e.node))
            r2.instance('fan-out over %s skips sender' % (setname or 'members'))
            ok, m = entails(e.pc, Not(sym.mk_eq(k, CONN_NICK)))
            if not ok:
                r2.violation('process_privmsg_notice|sender-not-skipped|%s' % (setname or 'members'),
                             'the sender receives its own message through the %s fan-out' % (setname or 'members'), loc=cx.loc(e.node))
        r5.instance(desc + ' payload/source')
        if s['source'] != CONN_SOURCE:
            r5.violation('process_privmsg_notice|attribution|%s' % (setname or 'direct'), 'copy is not prefixed with the sender\'s own '
                         'nick!user@host (%s)' % show_term(s['source']), loc=cx.loc(e.node))
        if s['payload'] != want_payload:
            r5.violation('process_privmsg_notice|payload|%s' % (setname or 'direct'), 'copy does not carry "<PRIVMSG|NOTICE> <target> :<text>" '
                         'of the addressed target and given text: %s' % show_term(s['payload'])[:200], loc=cx.loc(e.node))
        if s['how'] != 'send_msg_display':
            r5.violation('process_privmsg_notice|send-method', 'copy bypasses User::send_msg_display', loc=cx.loc(e.node))
    # send_msg_display body: ":{source} {payload}"
    wd = cx.walk(cx.fn('send_msg_display'), args=[('param', 'self'), ('param', 'source'), ('param', 't')])
    snd = [e for e in wd.events if is_call(e, 'send')]
    r5.instance('User::send_msg_display formats ":<source> <payload>" into the user\'s own queue')
    okfmt = (len(snd) == 1 and snd[0].data['args'][0] == ('field', ('param', 'self'), 'sender') and
             snd[0].data['args'][1] == ('fmt', (':', ('arg', 0), ' ', ('arg', 1)), ('param', 'source'), ('param', 't')))
    if not okfmt:
        r5.violation('User::send_msg_display|format', 'send_msg_display does not enqueue ":<source> <payload>" on the user\'s own sender',
                     loc=cx.fn('send_msg_display'))

    # ---- R1.3 de-duplicated targets
    r3 = cx.rule('R1.3', 'target loop over a set', floor=1, kind='type')
    outer = None
    for e, s, coll, setname, k in fan:
        for (kind, hid, iv, node) in e.loops:
            if iv == TARGETS:
                outer = node
    if outer is None:
        raise AnchorLost('target loop of process_privmsg_notice not found')
    ity = prog.ty(outer['iter']) if outer.get('k') == 'For' else ''
    r3.instance('iterated collection type: %s' % ity)
    if not ity.startswith('std::collections::HashSet<') and not ity.startswith('std::collections::BTreeSet<') \
            and 'hash::set::' not in ity and 'btree::set' not in ity:
        r3.violation('process_privmsg_notice|targets-not-deduplicated', 'the target loop iterates %s, not a set: a repeated target is '
                     'delivered twice' % ity, loc=cx.loc(outer))

    # ---- R1.4 at most one copy per receiver per target
    r4 = cx.rule('R1.4', 'fan-outs for one target are mutually exclusive or disjoint', floor=1, kind='exclusivity')
    chan_f = [(e, s, coll, setname) for e, s, coll, setname, k in fan if coll is not None]
    overl = []
    for i in range(len(chan_f)):
        for j in range(i + 1, len(chan_f)):
            a, b = chan_f[i], chan_f[j]
            ua, ub = getattr(a[0], 'ev', a[0]), getattr(b[0], 'ev', b[0])
            if ua is ub and _iterates_set(prog, ua, w):
                r4.instance('%s vs %s: one fan-out over a de-duplicating set' % (a[3] or 'members', b[3] or 'members'))
                continue
            fa, _ = M.abstract(a[0].pc)
            fb, _ = M.abstract(b[0].pc)
            # drop per-element facts: they talk about different loop variables
            both = And(_strip_elem(fa), _strip_elem(fb))
            r4.instance('%s vs %s' % (a[3] or 'members', b[3] or 'members'))
            if sat(both) is not None:
                overl.append((a[3] or 'members', b[3] or 'members', b[0]))
    if overl:
        names = sorted({x for a, b, _ in overl for x in (a, b)})
        r4.violation('process_privmsg_notice|overlapping-rank-fanouts|' + '/'.join(names), 'for a target with several status prefixes the fan-outs over %s '
                     'all run, and a member holding two of those ranks receives two copies' % '/'.join(names),
                     loc=cx.loc(overl[0][2].node), pairs=[(a, b) for a, b, _ in overl])

    # ---- R1.6 no other audience / queue discipline
    r6 = cx.rule('R1.6', 'send-site census and queue discipline', floor=4, kind='census')
    r6.instance('handler send sites: %d' % len(fan))
    census = cx_census(cx)
    for fn, e in census:
        if is_call(e, 'send') and 'UnboundedSender<std::string::String>' in (e.data.get('recv_ty') or ''):
            base = short_fn(fn)
            r6.instance('queue write in %s' % base)
            if base not in ('send_message', 'send_msg_display'):
                r6.violation('%s|raw-queue-write' % base, 'a user queue is written outside User::send_message/send_msg_display',
                             loc=cx.loc(e.node))
    pi = cx.fn('process_internal')
    wi = cx.walk(pi)
    arms = select_arms(prog, pi)
    r6.instance('select arms: %s' % ', '.join(arms))
    try:
        idx = arms.index('conn_state.receiver.recv()')
    except ValueError:
        raise AnchorLost('receiver arm of process_internal not found')
    feeds = [e for e in wi.events if is_call(e, 'feed') and e.data['args'][0] == ('field', CONN, 'stream')
             and any(c[0] == 'a' and c[1][0] == 'is' and c[1][2] == '_%d' % idx for c in conjuncts(e.pc))]
    r6.instance('receiver arm forwards the received string')
    good = [e for e in feeds if _is_arm_payload(e.data['args'][1], idx)
            and all(a[0] == 'is' and (a[2] == '_%d' % idx or (a[2] == 'Some' and a[1][0] == 'vfield' and a[1][2] == '_%d' % idx))
                    for a in atoms(e.pc))]
    if len(good) != 1 or len(feeds) != 1:
        r6.violation('process_internal|receiver-arm', 'the receiver arm does not feed exactly the received string to the own stream',
                     loc=pi)
    for fn, e in census:
        if is_call(e, 'recv') and e.data['args'][0] == ('field', CONN, 'receiver') and not fn.startswith(pi):
            r6.violation('%s|foreign-recv' % short_fn(fn), 'the message queue is drained outside the connection loop', loc=cx.loc(e.node))

    # ---- R1.9 rank sets subset of members
    r9 = cx.rule('R1.9', 'rank sets name members only (imported)', floor=2, kind='dependency')
    depends(cx, r9, 'C04', ('R4.1', 'R4.3', 'R4.4'), 'rank sets kept in step with the member map', only=r'writes-Channel\.users|^Channel|^ChannelModes')
    depends(cx, r9, 'C16', ('R16.1', 'R16.3'), 'rank sets of a new channel name members only',
            only=r'modes-not-cleaned|new_from_modes_and_cleanup\|fields|new_for_channel\|shape|new_on_user_join\|shape')

    # ---- R1.10 the text travels unchanged through the parser
    r10 = cx.rule('R1.10', 'target and text reach the handler exactly as sent (imported)', floor=1, kind='dependency')
    depends(cx, r10, 'C13', ('R13.8', 'R13.9', 'R13.13'), 'the tokeniser hands over the trailing parameter unchanged')
    depends(cx, r10, 'C13', ('R13.14',), 'target list and text are the parameters as sent', only=r'\|(PRIVMSG|NOTICE)\.')
    depends(cx, r10, 'C13', ('R13.5',), 'the relayed line reaches the socket whole (buffer and encoder do not alter it)',
            only=r'line-altered|IRCLinesCodec::encode')

    # ---- R1.8 the source string
    r8 = cx.rule('R1.8', 'source string integrity', floor=8, kind='provenance')
    check_source_string(cx, r8)

    # ---- R1.7 prefix / bit / set / flag table
    r7 = cx.rule('R1.7', 'status prefix <-> target bit <-> rank set <-> rank flag', floor=10, kind='table-agreement')
    wg = cx.walk(M.gpt, args=[('param', 'target')])
    got = {}
    for e in wg.events:
        if is_call(e, 'bitor_assign'):
            rhs = e.data['args'][1]
            bits = [t[2] for t in subterms(rhs) if isinstance(t, tuple) and t and t[0] == 'adt' and t[1].endswith('PrivMsgTargetType')]
            chars = [c[1][2][1] for c in conjuncts(e.pc) if c[0] == 'a' and c[1][0] == 'eq' and c[1][2][0] == 'lit']
            for ch in chars:
                got[chr(ch) if isinstance(ch, int) else ch] = set(bits) - {'Channel'}
    for ch, setname in PREFIX_CHAR.items():
        r7.instance("prefix '%s' -> %s -> %s" % (ch, RANKS[setname], setname))
        if got.get(ch) != {RANKS[setname]}:
            r7.violation("get_privmsg_target_type|prefix-%s" % setname, "status prefix '%s' does not select exactly the %s bit (got %s)"
                         % (ch, RANKS[setname], sorted(got.get(ch, []))), loc=M.gpt)
    wt = cx.walk(cx.fn('to_string', 'ChannelUserModes'), args=[('param', 'self'), ('param', 'caps')])
    shown = {}
    for e in wt.events:
        if e.kind == 'local_mut' and e.data['method'] == 'push':
            ch = e.data['args'][0]
            flags = [a[1][2] for a in atoms(e.pc) if a[0] == 'flag' and a[1][0] == 'field' and a[1][1] == ('param', 'self')]
            if ch[0] == 'lit':
                shown[ch[1]] = set(flags)
    for ch, setname in PREFIX_CHAR.items():
        r7.instance("displayed prefix '%s' <- flag %s" % (ch, FLAG_FIELD[setname]))
        if shown.get(ch) != {FLAG_FIELD[setname]}:
            r7.violation('ChannelUserModes::to_string|prefix-%s' % setname, "prefix '%s' is displayed for flags %s, expected %s"
                         % (ch, sorted(shown.get(ch, [])), FLAG_FIELD[setname]), loc=cx.fn('to_string', 'ChannelUserModes'))


def check_source_string(cx, rule):
    """R1.8 (all build configurations given)"""
    ME = ('param', 'self')
    for cfg, pg in cx.progs.items():
        fu = cx.fn('update_source', 'ConnUserState', prog=pg)
        w = cx.walk(fu, args=[ME], prog=pg, key='c01src')
        st = [e for e in w.events if e.kind == 'assign' and not e.data.get('init') and e.data['lhs'] == ('field', ME, 'source')]
        nick_some = Atom(('is', ('field', ME, 'nick'), 'Some'))
        name_some = Atom(('is', ('field', ME, 'name'), 'Some'))
        NICKV, NAMEV, HOSTV = ('some_of', ('field', ME, 'nick')), ('some_of', ('field', ME, 'name')), ('field', ME, 'hostname')
        rule.instance('[%s] update_source appends nick ! ~ user @ host and stores the result' % cfg)
        ok = len(st) == 1 and st[0].pc == T
        if ok:
            # the stored string, case by case (however it is put together: pushes, format!, helper), against the specified one
            got = string_cases(w, st[0].data['rhs'])
            for hn in (True, False):
                for hu in (True, False):
                    cond = And(nick_some if hn else Not(nick_some), name_some if hu else Not(name_some))
                    want = ([NICKV, ('lit', '!')] if hn else []) + ([('lit', '~'), NAMEV] if hu else []) + [('lit', '@'), HOSTV]
                    wantm = string_cases(w, ('fmt', tuple(('arg', i) for i in range(len(want)))) + tuple(want))[0][1]
                    mine = [ps for c_, ps in got if sat(And(c_, cond)) is not None]
                    if not mine or any(ps != wantm for ps in mine):
                        ok = False
        if not ok:
            rule.violation('ConnUserState::update_source|shape', 'the source string is not built as <nick>!~<user>@<host> from the '
                           'connection\'s own fields: every message of this connection is then attributed wrongly', loc=fu, config=cfg)
        # setters: field := Some(argument) (hostname := argument), then update_source()
        for setter, fld, wrap in (('set_nick', 'nick', True), ('set_name', 'name', True), ('set_hostname', 'hostname', False)):
            if not cx.has_fn(setter, 'ConnUserState', prog=pg):
                continue
            fs = cx.fn(setter, 'ConnUserState', prog=pg)
            ARG = ('param', fld)
            ws = cx.walk(fs, args=[ME, ARG], prog=pg, key='c01src')
            asg = [e for e in ws.events if e.kind == 'assign' and not e.data.get('init') and e.data['lhs'] == ('field', ME, fld)]
            upd = [e for e in ws.events if is_call(e, 'update_source') and e.data['args'][:1] == [ME]]
            rule.instance('[%s] %s stores its argument and recomputes the source string' % (cfg, setter))
            good = len(asg) == 1 and asg[0].pc == T and asg[0].data['rhs'] == ((('some', ARG)) if wrap else ARG) and \
                len(upd) >= 1 and upd[-1].pc == T and upd[-1].seq > asg[0].seq
            if not good:
                rule.violation('ConnUserState::%s|recompute' % setter, '%s does not store its argument and then recompute the source string: '
                               'messages keep being attributed to the previous identity' % setter, loc=fs, config=cfg)
        # writers of the identity fields and of the two source strings
        for fn, e in cx_census(cx, pg):
            if e.kind != 'assign' or e.data.get('init'):
                continue
            adt = (e.data.get('lhs_node') or {}).get('adt', '')
            f = path_of(e.data['lhs'])[-1:]
            b = short_fn(fn.replace('::{closure#0}', ''))
            if adt.endswith('::ConnUserState') and f and f[0] in ('nick', 'name', 'hostname', 'source'):
                allowed = {'nick': 'set_nick', 'name': 'set_name', 'hostname': 'set_hostname', 'source': 'update_source'}[f[0]]
                rule.instance('[%s] %s written by %s' % (cfg, f[0], b))
                if b != allowed:
                    rule.violation('%s|writes-identity|%s' % (b, f[0]), '%s writes ConnUserState.%s directly (bypassing %s, the source '
                                   'string is then stale)' % (b, f[0], allowed), loc=pg.loc(e.node), config=cfg)
            if adt.endswith('::User') and f == ['source']:
                rule.instance('[%s] User.source written by %s' % (cfg, b))
                src_ok = b in ('update_nick', 'update_hostname') and e.data['rhs'] == ('field', ('param', 'user_state'), 'source') and e.pc == T
                if not src_ok:
                    rule.violation('%s|writes-user-source' % b, 'User.source is set to something other than its connection\'s source string',
                                   loc=pg.loc(e.node), config=cfg)
        fnew = cx.fn('new', 'structs::User', prog=pg)
        wn = cx.walk(fnew, prog=pg, key='c01src')
        lit = [e for e in wn.events if e.kind == 'adt' and e.data['adt'].endswith('::User')]
        rule.instance('[%s] User::new copies the connection\'s source string' % cfg)
        flds = dict(lit[0].data['fields']) if lit and not isinstance(lit[0].data['fields'], dict) else (lit[0].data['fields'] if lit else {})
        if len(lit) != 1 or flds.get('source') != ('field', ('param', 'user_state'), 'source'):
            rule.violation('User::new|source', 'a new user\'s source string is not its connection\'s source string', loc=fnew, config=cfg)


def _is_set_ty(ty):
    return 'HashSet<' in ty or 'BTreeSet<' in ty or 'hash::set' in ty or 'hash_set' in ty


def _iterates_set(prog, e, w=None):
    """does the innermost loop of this send iterate a set-typed (de-duplicating) local collection?  The type is taken from
       the loop expression or, when the loop sits in a helper that receives the collection as a generic iterator, from the
       creation of the local collection itself"""
    for (kind, hid, iv, node) in reversed(e.loops):
        # look through lazy adaptors (filter / map / enumerate) to the collection that is walked
        while isinstance(iv, tuple) and iv and iv[0] in ('mapped', 'filtered', 'enum') and len(iv) > 1:
            iv = iv[1]
        if iv is not None and iv[0] == 'local':
            try:
                ty = prog.ty(node['iter']) if node.get('k') == 'For' else (prog.ty(node['args'][0]) if node.get('args') else '')
            except Exception:
                ty = ''
            if _is_set_ty(ty):
                return True
            if w is not None:
                for b in w.events:
                    if b.kind == 'bind' and b.data.get('var') is not None and iv[2] == b.data['var'] or \
                            (b.kind == 'bind' and b.data.get('name') == iv[1] and isinstance(b.data.get('value'), tuple)
                             and b.data['value'][:1] == ('fresh',)):
                        v = b.data.get('value')
                        if isinstance(v, tuple) and v[:1] == ('fresh',) and _is_set_ty(str(v[1])):
                            return True
            return False
    return False


def _strip_elem(f):
    """forget atoms about loop elements (membership / equality of the loop variable)"""
    def fn(a):
        if mentions(a, 'elem') and not (isinstance(a, tuple) and a and a[0] == 'v'):
            return T
        return Atom(a)
    # only positive/negative literals about elements occur as top-level conjuncts: drop them
    cs = []
    for c in conjuncts(f):
        at = atoms(c)
        if at and all(mentions(a, 'elem') and not (a[0] == 'v') for a in at):
            continue
        cs.append(c)
    return And(*cs)


def _is_arm_payload(t, idx):
    """term bound by the select arm pattern `_N(Some(x))`"""
    s = repr(t)
    return "'_%d'" % idx in s and 'vfield' in s


def select_arms(prog, fn_path):
    """descriptors of the futures polled by the tokio::select! in fn_path, in arm order"""
    b = prog.coroutine_of(fn_path)
    for n in ir.walk(b['body']):
        if n.get('k') == 'Let' and n['pat'].get('k') == 'Bind' and n['pat'].get('n') == 'futures_init' and 'init' in n:
            t = n['init']
            while t.get('k') in ('Borrow', 'Deref'):
                t = t['e']
            if t.get('k') == 'Tuple':
                return [ir.pp(x) for x in t['es']]
    raise AnchorLost('tokio::select! in %s not found' % fn_path)
