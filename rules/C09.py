"""C09 — KICK, TOPIC and INVITE obey channel rank."""
from .common import *  # noqa: F401,F403
from .ranks import check_rank_predicates, pred

CHN = ('param', 'channel')
KUS = ('param', 'kick_users')
COMMENT = ('param', 'comment')
VIC = ('elem', KUS)
CH = chan(CHN)
MEMBERS = field(CH, 'users')
ACTOR = ('idx', MEMBERS, CONN_NICK)
MSG = ('param', 'msg')


def strip_dedup(f):
    """drop "not selected yet" literals (duplicate suppression on the local victim list)"""
    for a in atoms(f):
        if a[0] == 'is' and a[1][0] == 'get' and a[1][1][0] == 'local':
            f = subst(f, a, False)
    return f


def reply_cond(cx, r, reps, variant, want, fn, key, channel_field=CHN):
    evs = [e for e, x in reps if x['variant'] == variant]
    r.instance('%s condition' % variant)
    if not evs:
        r.violation('%s|missing-%s' % (key, variant), 'no %s reply' % variant, loc=fn)
        return
    ok, m = equivalent(Or(*[e.pc for e in evs]), want)
    if not ok:
        r.violation('%s|cond-%s' % (key, variant), '%s is not emitted exactly in its refusal case: %s' % (variant, m), loc=cx.loc(evs[0].node))


def check(cx):
    ck = cx.check
    ck.decides += [
        'R9.1 a name is selected for KICK iff channel exists, actor is a member ranked half-operator+, victim is a member, not founder/protected, and not (victim half-op+ and actor only half-op); refusals 403/442/482/441/972',
        'R9.2 selected victims are removed through remove_user_from_channel(channel, victim); KICK line goes to the remaining members and to the victim, attributed to the actor',
        'R9.3 the facts the KICK tail relies on still hold where they are used (channel present; per-victim membership across iterations)',
        'R9.4 TOPIC is written iff exists && member && (!t || half-operator+); empty text clears; announcement to all members; read replies 332+333/331/442/403 read the same field',
        'R9.5 INVITE records the invitation for exactly the invitee iff exists && member && (!i || actor.operator) && invitee not on channel && invitee exists; 341; only the invitee is notified',
        'R9.6 rank predicate bodies implement the rank lattice',
    ]
    ck.does_not_decide += ['that a concrete later JOIN consumes the invitation (C07 R7.4 decides the consuming site)']
    prog = cx.prog
    rp = cx.rule('R9.6', 'rank predicate bodies used by KICK/TOPIC/INVITE', floor=4, kind='equivalence')
    check_rank_predicates(cx, rp, names=('is_protected', 'is_operator', 'is_half_operator', 'is_only_half_operator'))

    # ================================================================ KICK
    fk = cx.fn('process_kick')
    w = cx.walk(fk, args=[SELF, CONN, CHN, KUS, COMMENT], key='c09')
    exists = has(CHANNELS, CHN)
    member = has(MEMBERS, CONN_NICK)
    halfop = pred(cx, 'is_half_operator', ACTOR)
    only = pred(cx, 'is_only_half_operator', ACTOR)
    vmem = has(MEMBERS, VIC)
    vchum = ('idx', MEMBERS, VIC)
    vprot = pred(cx, 'is_protected', vchum)
    vhalf = pred(cx, 'is_half_operator', vchum)
    allowed = And(Not(vprot), Or(Not(vhalf), Not(only)))
    G = And(exists, member, halfop, vmem, allowed)

    r1 = cx.rule('R9.1', 'KICK selection condition and refusals', floor=6, kind='equivalence')
    pushes = [e for e in w.events if e.kind == 'local_mut' and e.data['method'] == 'push' and e.data['args'][:1] == [VIC]]
    removes = [e for e in w.events if is_call(e, 'remove_user_from_channel') and e.data.get('local')]
    r1.instance('selection of a victim')
    decision = pushes if pushes else removes
    if not decision:
        r1.violation('process_kick|no-selection', 'process_kick never selects/removes a victim', loc=fk)
    for e in decision:
        f = e.pc
        for a in atoms(f):
            if a[0] == 'is' and a[1][0] == 'get' and a[1][1][0] == 'local':
                f = subst(f, a, False)      # "not selected yet" (duplicate suppression)
        ok, m = equivalent(f, G)
        if not ok:
            r1.violation('process_kick|selection-formula', 'a user is kicked under a condition that is not (actor member & half-op+, '
                         'victim member, not protected, half-op cannot kick half-op+): %s' % (m,), loc=cx.loc(e.node), found=show(e.pc))
    reps = replies(w)
    reply_cond(cx, r1, reps, 'ErrNoSuchChannel403', Not(exists), fk, 'process_kick')
    reply_cond(cx, r1, reps, 'ErrNotOnChannel442', And(exists, Not(member)), fk, 'process_kick')
    reply_cond(cx, r1, reps, 'ErrChanOpPrivsNeeded482', And(exists, member, Not(halfop)), fk, 'process_kick')
    reply_cond(cx, r1, reps, 'ErrUserNotInChannel441', And(exists, member, halfop, Not(vmem)), fk, 'process_kick')
    reply_cond(cx, r1, reps, 'ErrCannotDoCommand972', And(exists, member, halfop, vmem, Not(allowed)), fk, 'process_kick')

    r2 = cx.rule('R9.2', 'KICK removal and announcement', floor=3, kind='effect+emission')
    r2.instance('removal through remove_user_from_channel(channel, victim)')
    if not removes:
        r2.violation('process_kick|no-removal', 'selected victims are not removed from the channel', loc=fk)
    for e in removes:
        if e.data['args'][1:] != [CHN, VIC]:
            r2.violation('process_kick|removal-args', 'removal is not applied to (this channel, selected victim)', loc=cx.loc(e.node))
        ok, m = entails(strip_dedup(e.pc), G)
        if not ok:
            r2.violation('process_kick|unguarded-removal', 'a member can be removed without the KICK conditions: %s' % model_str(m),
                         loc=cx.loc(e.node))
    for e, x in effects(w, prog):
        if x['op'] != 'remove_user_from_channel':
            r2.violation('process_kick|other-effect|%s' % x['op'], 'KICK changes state other than through the removal: %s %s'
                         % (x['op'], show_term(x['place'])), loc=cx.loc(e.node))
    kick_line = ('fmt', ('KICK ', ('arg', 0), ' ', ('arg', 1), ' :', ('arg', 2)), CHN, VIC,
                 sym.mk_ite(is_some(COMMENT), ('some_of', COMMENT), ('lit', 'Kicked')))
    snd = sends(w)
    to_rest = [(e, s) for e, s in snd if s['to'] == user(('elem', ('keys', MEMBERS)))]
    to_vic = [(e, s) for e, s in snd if s['to'] == user(VIC)]
    others = [(e, s) for e, s in snd if (e, s) not in to_rest and (e, s) not in to_vic]
    r2.instance('KICK line to remaining members')
    r2.instance('KICK line to the victim')
    if not to_rest:
        r2.violation('process_kick|no-announcement', 'the kick is not announced to the remaining members', loc=fk)
    if not to_vic:
        r2.violation('process_kick|victim-not-told', 'the victim is not told about the kick', loc=fk)
    # the victim is told unconditionally: its line must not hang on a look-up of the channel made after the removals (a kick that
    # removes the last members deletes the channel)
    body_k = prog.bodies[fk + '::{closure#0}']['body'] if (fk + '::{closure#0}') in prog.bodies else prog.bodies[fk]['body']
    first_rm = min([x.seq for x in removes] or [0])
    late_q = [q for q in w.events if q.kind == 'query' and q.data['coll'] == CHANNELS and q.seq > first_rm and removes]
    for e, s in to_vic:
        r2.instance('victim line does not depend on the channel surviving the removals')
        if any(conditioned_on(prog, body_k, e.node, q.node) for q in late_q):
            r2.violation('process_kick|victim-line-needs-surviving-channel', 'the KICK line to the victim is sent only if the channel still '
                         'exists after the removals: when the kick empties the channel nobody is told, although the victims lost their '
                         'membership', loc=cx.loc(e.node))
    for e, s in others:
        r2.violation('process_kick|foreign-audience', 'KICK line is sent to %s' % show_term(s['to']), loc=cx.loc(e.node))
    for e, s in to_rest + to_vic:
        if s['source'] != CONN_SOURCE or s['payload'] != kick_line:
            r2.violation('process_kick|line-shape', 'KICK line is not ":<actor> KICK <channel> <victim> :<comment|Kicked>"',
                         loc=cx.loc(e.node), found=show_term(s['payload'])[:200])
        f = strip_dedup(e.pc)
        for a in atoms(f):
            if a == ('is', ('get', MEMBERS, ('elem', ('keys', MEMBERS))), 'Some'):
                f = subst(f, a, True)
        ok, m = equivalent(f, G)
        if not ok:
            r2.violation('process_kick|announce-condition', 'KICK line is not sent exactly for kicked victims: %s' % (m,), loc=cx.loc(e.node))
        if removes and e.seq < max(x.seq for x in removes) and (e, s) in to_rest:
            r2.violation('process_kick|announce-before-removal', 'members are told before the victim is removed (victim would receive it twice)',
                         loc=cx.loc(e.node))

    # ---- R9.3 robustness of the tail
    r3 = cx.rule('R9.3', 'facts used by the KICK tail still hold', floor=2, kind='obligation')
    for q in w.events:
        if q.kind == 'query' and q.data['coll'] == CHANNELS and q.data['key'] == CHN:
            r3.instance('lookup of the channel (%s) at seq %d' % (q.data['name'], q.seq))
    for e in w.events:
        if e.kind == 'unwrap' and e.data['recv'] == ('get', CHANNELS, CHN):
            r3.instance('channels.get(channel).unwrap()')
            ok, m = entails(e.pc, exists)
            killed = any(x.seq < e.seq for x in removes)
            if not ok:
                r3.violation('process_kick|tail-unwrap-channel', 'channels.get(channel).unwrap() is reached when the channel does not '
                             'exist / the actor may not kick (403/442/482 paths fall through): the handler aborts', loc=cx.loc(e.node))
            elif killed:
                r3.violation('process_kick|tail-unwrap-after-removal', 'the channel may have been deleted by the removals before it is '
                             'looked up again', loc=cx.loc(e.node))
    for e in removes:
        loop = [l for l in e.loops if l[2] is not None and l[2][0] == 'local']
        r3.instance('per-victim membership across iterations')
        if loop:
            src_loops = [l for p in pushes for l in p.loops]
            set_typed = all(_set_typed(prog, l[3]) for l in src_loops) and bool(src_loops)
            dedup = bool(pushes) and all(entails(p.pc, Not(has(p.data['local'], p.data['args'][0])))[0] for p in pushes)
            if not set_typed and not dedup:
                r3.violation('process_kick|repeated-victim', 'victims are collected in a list built from a list: a repeated name is removed '
                             'twice and the second removal finds no member entry (Channel::remove_* unwrap aborts the handler)',
                             loc=cx.loc(e.node))

    # ================================================================ TOPIC
    ft = cx.fn('process_topic')
    TOPIC = ('param', 'topic_opt')
    wt = cx.walk(ft, args=[SELF, CONN, CHN, TOPIC, MSG], key='c09')
    r4 = cx.rule('R9.4', 'TOPIC write condition, announcement and read replies', floor=8, kind='equivalence')
    tprot = flag(field(CH, 'modes', 'protected_topic'))
    given = is_some(TOPIC)
    W = And(given, exists, member, Or(Not(tprot), halfop))
    place = field(CH, 'topic')
    writes = [(e, x) for e, x in effects(wt, prog) if x['place'] == place]
    r4.instance('topic writes: %d' % len(writes))
    if not writes:
        r4.violation('process_topic|no-write', 'TOPIC never changes the topic', loc=ft)
    empty = Atom(('empty', ('some_of', TOPIC)))

    class _W:       # one assignment with a conditional value counts as one write per case of the value
        def __init__(self, e, pc):
            self.pc, self.node, self.seq = pc, e.node, e.seq
    writes_x = []
    for e0, x0 in writes:
        for c_, leaf in term_cases(x0['value']):
            if sat(And(e0.pc, c_)) is not None:
                writes_x.append((_W(e0, And(e0.pc, c_)), dict(x0, value=leaf)))
    for e, x in writes_x:
        ok, m = entails(e.pc, W)
        if not ok:
            r4.violation('process_topic|unguarded-write', 'the topic can be changed without membership / +t rank: %s' % model_str(m),
                         loc=cx.loc(e.node))
        v = x['value']
        is_clear = (v == ('none',))
        r4.instance('topic := %s' % show_term(v)[:60])
        if is_clear:
            ok, _ = entails(e.pc, empty)
            if not ok:
                r4.violation('process_topic|clear-nonempty', 'the topic is cleared for a non-empty text', loc=cx.loc(e.node))
        else:
            okv = (v[0] == 'some' and v[1][0] == 'call' and v[1][1].endswith('ChannelTopic::new_with_nick')
                   and v[1][2] == ('some_of', TOPIC) and v[1][3] == CONN_NICK)
            ok, _ = entails(e.pc, Not(empty))
            if not ok:
                r4.violation('process_topic|set-empty', 'an empty text can be stored as topic instead of clearing it', loc=cx.loc(e.node))
            if not okv:
                r4.violation('process_topic|stored-value', 'the stored topic is not (given text, setter nick)', loc=cx.loc(e.node))
    # ... and the constructor stores what it is given (the announcement relays the original text: both must be the same topic)
    fct = cx.fn('new_with_nick', 'ChannelTopic')
    wct = cx.walk(fct, args=[('param', 'topic'), ('param', 'nick')], key='c09')
    r4.instance('ChannelTopic::new_with_nick stores (topic, nick) verbatim')
    cv = wct.retval
    okc = bool(cv) and cv[0] == 'adt' and dict(cv[3]).get('topic') == ('param', 'topic') and dict(cv[3]).get('nick') == ('param', 'nick')
    if not okc:
        r4.violation('ChannelTopic::new_with_nick|stored-value', 'the topic record does not hold the given text and setter unchanged: later '
                     'TOPIC / LIST / JOIN replies show something else than what was announced', loc=fct)
    r4.instance('every permitted TOPIC change is applied')
    ok, m = entails(W, Or(*[e.pc for e, x in writes])) if writes else (True, None)
    if not ok:
        r4.violation('process_topic|write-skipped', 'a permitted TOPIC change is not applied: %s' % model_str(m), loc=ft)
    for e, x in effects(wt, prog):
        if x['place'] != place and not (x['op'] == 'get_mut'):
            r4.violation('process_topic|other-effect', 'TOPIC changes other state: %s' % show_term(x['place']), loc=cx.loc(e.node))
    ts = sends(wt)
    r4.instance('announcement to all members')
    ann = [(e, s) for e, s in ts if s['to'] == user(('elem', ('keys', MEMBERS)))]
    if not ann:
        r4.violation('process_topic|no-announcement', 'a topic change is not announced to the channel members', loc=ft)
    for e, s in ts:
        if (e, s) not in ann:
            r4.violation('process_topic|foreign-audience', 'TOPIC is sent to %s' % show_term(s['to']), loc=cx.loc(e.node))
        f = e.pc
        for a in atoms(f):
            if a == ('is', ('get', MEMBERS, ('elem', ('keys', MEMBERS))), 'Some'):
                f = subst(f, a, True)
        ok, m = equivalent(f, W)
        if not ok or s['payload'] != MSG or s['source'] != CONN_SOURCE:
            r4.violation('process_topic|announcement-shape', 'TOPIC announcement is not (original message, actor source) for exactly '
                         'the accepted changes', loc=cx.loc(e.node))
    r4.instance('TOPIC / INVITE are relayed through the serialiser that keeps the last parameter intact (C13 R13.7)')
    depends(cx, r4, 'C13', ('R13.7',), 'a relayed last parameter (topic text) is re-parsed as sent')
    treps = replies(wt)
    tsome = is_some(field(CH, 'topic'))
    reply_cond(cx, r4, treps, 'RplTopic332', And(Not(given), exists, member, tsome), ft, 'process_topic')
    reply_cond(cx, r4, treps, 'RplTopicWhoTime333', And(Not(given), exists, member, tsome), ft, 'process_topic')
    reply_cond(cx, r4, treps, 'RplNoTopic331', And(Not(given), exists, member, Not(tsome)), ft, 'process_topic')
    reply_cond(cx, r4, treps, 'ErrNotOnChannel442', And(exists, Not(member)), ft, 'process_topic')
    reply_cond(cx, r4, treps, 'ErrNoSuchChannel403', Not(exists), ft, 'process_topic')
    reply_cond(cx, r4, treps, 'ErrChanOpPrivsNeeded482', And(given, exists, member, tprot, Not(halfop)), ft, 'process_topic')
    for e, x in treps:
        if x['variant'] == 'RplTopic332':
            r4.instance('332 shows the stored topic')
            if x['fields'].get('topic') != field(('some_of', field(CH, 'topic')), 'topic') or x['fields'].get('channel') != CHN:
                r4.violation('process_topic|332-field', '332 does not show the stored topic of the queried channel', loc=cx.loc(e.node))

    # ================================================================ INVITE
    fi = cx.fn('process_invite')
    NICKN = ('param', 'nickname')
    wi = cx.walk(fi, args=[SELF, CONN, NICKN, CHN, MSG], key='c09')
    r5 = cx.rule('R9.5', 'INVITE condition, record and notification', floor=8, kind='equivalence')
    inv_only = flag(field(CH, 'modes', 'invite_only'))
    actor_op = flag(field(ACTOR, 'operator'))
    on_chan = has(MEMBERS, NICKN)
    uexists = has(USERS, NICKN)
    D = And(exists, member, Or(Not(inv_only), actor_op), Not(on_chan))
    I = And(D, uexists)
    ieff = effects(wi, prog)
    rec = [(e, x) for e, x in ieff if x['op'] == 'insert' and x['place'] == field(user(NICKN), 'invited_to')]
    r5.instance('invitation record sites: %d' % len(rec))
    if not rec:
        r5.violation('process_invite|no-record', 'INVITE never records an invitation', loc=fi)
    for e, x in rec:
        if x['args'][:1] != [CHN]:
            r5.violation('process_invite|record-channel', 'the invitation is recorded for a different channel', loc=cx.loc(e.node))
        ok, m = equivalent(e.pc, I)
        if not ok:
            r5.violation('process_invite|record-condition', 'an invitation is recorded under a condition other than (actor member, '
                         'operator if +i, invitee exists and is not on the channel): %s' % (m,), loc=cx.loc(e.node))
    for e, x in ieff:
        if (e, x) not in rec and x['op'] != 'get_mut':
            r5.violation('process_invite|other-effect|%s' % x['op'], 'INVITE changes other state: %s %s' % (x['op'], show_term(x['place'])),
                         loc=cx.loc(e.node))
    isn = sends(wi)
    r5.instance('only the invitee is notified')
    if not isn:
        r5.violation('process_invite|invitee-not-told', 'the invited user is not notified', loc=fi)
    for e, s in isn:
        ok, m = equivalent(e.pc, I)
        if s['to'] != user(NICKN) or s['payload'] != MSG or s['source'] != CONN_SOURCE or not ok:
            r5.violation('process_invite|notification-shape', 'INVITE notification is not (original message from the actor) to exactly '
                         'the invited user', loc=cx.loc(e.node))
    ireps = replies(wi)
    reply_cond(cx, r5, ireps, 'RplInviting341', I, fi, 'process_invite')
    reply_cond(cx, r5, ireps, 'ErrNoSuchChannel403', Not(exists), fi, 'process_invite')
    reply_cond(cx, r5, ireps, 'ErrNotOnChannel442', And(exists, Not(member)), fi, 'process_invite')
    reply_cond(cx, r5, ireps, 'ErrChanOpPrivsNeeded482', And(exists, member, inv_only, Not(actor_op)), fi, 'process_invite')
    reply_cond(cx, r5, ireps, 'ErrUserOnChannel443', And(exists, member, Or(Not(inv_only), actor_op), on_chan), fi, 'process_invite')
    reply_cond(cx, r5, ireps, 'ErrNoSuchNick401', And(D, Not(uexists)), fi, 'process_invite')
    # "grants one admission": the recorded invitation is used up by the JOIN that enters the user into the channel and by nothing else
    # (relative to the handler's own admission decision; whether that decision is right is C07's business)
    from .C07 import rule_invitation_relative
    rule_invitation_relative(cx, r5)


def _set_typed(prog, node):
    if node.get('k') == 'For':
        ty = prog.ty(node['iter'])
    else:
        ty = prog.ty(node['args'][0]) if node.get('args') else ''
    return 'HashSet<' in ty or 'BTreeSet<' in ty or 'hash::set' in ty or 'hash_set' in ty


def rule_kick_relative(cx, rule):
    """membership view of KICK, relative to the handler's own selection (shared: C04 R4.7): a victim is removed through
       remove_user_from_channel(channel, victim), and the KICK line goes to the remaining members and to the victim under exactly the
       condition of the removal.  Whether the selection is the right one is C09's business."""
    fk = cx.fn('process_kick')
    w = cx.walk(fk, args=[SELF, CONN, CHN, KUS, COMMENT], key='c09')
    removes = [e for e in w.events if is_call(e, 'remove_user_from_channel') and e.data.get('local')]
    rule.instance('KICK: removals through remove_user_from_channel: %d' % len(removes))
    if not removes or any(e.data['args'][1:] != [CHN, VIC] for e in removes):
        rule.violation('process_kick|relative|removal', 'a kicked user is not removed through remove_user_from_channel(channel, victim)', loc=fk)
        return
    removed = Or(*[strip_dedup(e.pc) for e in removes])
    snd = sends(w)
    to_rest = [(e, s) for e, s in snd if s['to'] == user(('elem', ('keys', MEMBERS)))]
    to_vic = [(e, s) for e, s in snd if s['to'] == user(VIC)]
    for what, lst in (('the remaining members', to_rest), ('the victim', to_vic)):
        rule.instance('KICK: line to %s <=> removal' % what)
        if not lst:
            rule.violation('process_kick|relative|untold|%s' % what.split()[-1], 'a kick is not announced to %s' % what, loc=fk)
        for e, s in lst:
            f = strip_dedup(e.pc)
            for a in atoms(f):
                if a == ('is', ('get', MEMBERS, ('elem', ('keys', MEMBERS))), 'Some') or a == ('is', ('get', USERS, ('elem', ('keys', MEMBERS))), 'Some'):
                    f = subst(f, a, True)
            if what == 'the victim':
                prog = cx.prog
                body_k = prog.bodies[fk + '::{closure#0}']['body'] if (fk + '::{closure#0}') in prog.bodies else prog.bodies[fk]['body']
                first_rm = min(x.seq for x in removes)
                if any(conditioned_on(prog, body_k, e.node, q.node) for q in w.events
                       if q.kind == 'query' and q.data['coll'] == CHANNELS and q.seq > first_rm):
                    rule.violation('process_kick|victim-line-needs-surviving-channel', 'the KICK line to the victim is sent only if the channel '
                                   'still exists after the removals', loc=cx.loc(e.node))
            ok, m = equivalent(f, removed)
            if not ok:
                rule.violation('process_kick|relative|announcement|%s' % what.split()[-1], 'the KICK line to %s and the removal do not happen under '
                               'the same condition (%s)' % (what, m), loc=cx.loc(e.node))
