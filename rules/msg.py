"""Shared analysis of process_privmsg_notice for C01 and C10: atom classification into the
variables of the property text and the abstracted path conditions of every send/reply."""
from .common import *  # noqa: F401,F403

TARGETS = ('param', 'targets')
TEXT = ('param', 'text')
NOTICE = ('param', 'notice')
T_EL = ('elem', TARGETS)
RANKS = {'founders': 'ChannelFounder', 'protecteds': 'ChannelProtected', 'operators': 'ChannelOper',
         'half_operators': 'ChannelHalfOper', 'voices': 'ChannelVoice'}


def V(name):
    return Atom(('v', name))


class MsgModel:
    def __init__(self, cx):
        self.cx = cx
        self.fn = cx.fn('process_privmsg_notice')
        self.w = cx.walk(self.fn, args=[SELF, CONN, TARGETS, TEXT, NOTICE], key='msg')
        self.gpt = cx.fn('get_privmsg_target_type')
        tt = ('call', self.gpt, T_EL)
        self.tt0 = sym.proj(tt, 0)
        self.cs = sym.proj(tt, 1)
        self.ch = chan(self.cs)
        self.modes = field(self.ch, 'modes')
        self.members = field(self.ch, 'users')
        self.chum = ('idx', self.members, CONN_NICK)

    def classify(self, a):
        if a == ('truth', NOTICE):
            return 'notice'
        if a[0] == 'call' and a[1].endswith('::contains') and a[2] == self.tt0 and _is_tt(a[3], 'Channel'):
            return 'ischan'
        if a == ('is', ('get', CHANNELS, self.cs), 'Some'):
            return 'exists'
        if a == ('flag', field(self.modes, 'no_external_messages')):
            return 'n'
        if a == ('flag', field(self.modes, 'secret')):
            return 's'
        if a == ('flag', field(self.modes, 'moderated')):
            return 'm'
        if a == ('is', ('get', self.members, CONN_NICK), 'Some'):
            return 'member'
        if a[0] == 'call' and a[1].endswith('ChannelModes::banned') and a[2:] == (self.modes, CONN_SOURCE):
            return 'b'
        if a[0] == 'call' and a[1].endswith('ChannelUserModes::is_voice') and a[2:] == (self.chum,):
            return 'voice'
        if a[0] == 'empty' and a[1][0] == 'call' and a[1][1].endswith('::bitand') and a[1][2] == self.tt0:
            for nm in ('ChannelAllSpecial',) + tuple(RANKS.values()):
                if _is_tt(a[1][3], nm):
                    return 'nobit_' + nm
        for setname in RANKS:
            if a == ('is', field(self.modes, setname), 'Some'):
                return 'some_' + setname
        if a == ('is', ('get', USERS, T_EL), 'Some'):
            return 'user_exists'
        if a == ('is', field(user(T_EL), 'away'), 'Some'):
            return 'away'
        return None

    def abstract(self, f, drop=()):
        """map atoms to property variables; atoms in `drop` (loop facts) are assumed true/false as given"""
        unknown = []
        for a, val in drop:
            f = subst(f, a, val)

        def fn(a):
            v = self.classify(a)
            if v is None:
                if a not in unknown:
                    unknown.append(a)
                return Atom(a)
            return V(v)
        return rename(f, fn), unknown

    def can_send_spec(self):
        n, s, m, member, b, voice = [V(x) for x in ('n', 's', 'm', 'member', 'b', 'voice')]
        return And(Or(And(Not(n), Not(s)), member), Not(b), Or(Not(m), And(member, voice)))

    def fanouts(self):
        """channel fan-out sends: [(event, send, collection term, rank set name or None, element term)].
           A send that iterates a local collection filled by extend()/insert() from several sources yields one
           (virtual) fan-out per source, whose path condition is send.pc && fill.pc."""
        out = []
        for e, s in sends(self.w):
            to = s['to']
            if to[0] == 'idx' and to[1] == USERS:
                k = to[2]
                if k[0] == 'elem' and k[1][0] == 'local':
                    fills = [x for x in self.w.events if x.kind == 'local_mut' and x.data['local'] == k[1]
                             and x.data['method'] in ('extend', 'insert', 'push')]
                    hit = False
                    for x in fills:
                        src = x.data['args'][0] if x.data['args'] else None
                        for setname in RANKS:
                            coll = ('some_of', field(self.modes, setname))
                            if src == coll or src == ('elem', coll):
                                out.append((VirtualEvent(e, And(e.pc, x.pc)), s, coll, setname, k))
                                hit = True
                        if src in (('keys', self.members), ('elem', ('keys', self.members))):
                            out.append((VirtualEvent(e, And(e.pc, x.pc)), s, ('keys', self.members), None, k))
                            hit = True
                    if hit and len([1 for x in fills]) == len([o for o in out if o[4] == k]):
                        continue
                    if hit:
                        out.append((e, s, None, '?', None))
                        continue
                if k == ('elem', ('keys', self.members)):
                    out.append((e, s, ('keys', self.members), None, k))
                    continue
                hit = False
                for setname in RANKS:
                    coll = ('some_of', field(self.modes, setname))
                    if k == ('elem', coll):
                        out.append((e, s, coll, setname, k))
                        hit = True
                if hit:
                    continue
            out.append((e, s, None, '?', None))
        return out


def _is_tt(t, name):
    return isinstance(t, tuple) and t and t[0] == 'adt' and t[1].endswith('PrivMsgTargetType') and t[2] == name


_MODEL = {}


def model(cx):
    if id(cx) not in _MODEL:
        _MODEL[id(cx)] = MsgModel(cx)
    return _MODEL[id(cx)]
