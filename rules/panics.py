"""Engine D: discharge of panic obligations (shared by C05 and C14).

Each panic-capable site (analysis/oblig.py) must be discharged by
  D1  a local guard: the site's path condition entails the precondition,
  D2  a validated-input fact re-located in the parser/validator on every run,
  D3  a global invariant I1-I8 that other checks establish,
  D4  a row of the justified table below (term-keyed, with a structural recheck where cheap).
Everything else is an undischarged obligation = a reachable abort.
"""
from analysis import oblig
from .common import *  # noqa: F401,F403

GATE_EXEMPT = {'process_cap', 'process_authenticate', 'process_pass', 'process_nick', 'process_user', 'process_quit'}
STARTUP_ONLY = {
    'main': 'program entry',
    'new': None,  # decided per impl below
    'default': 'MainConfig::default is used by tests/start-up only',
    'initialize_logging': 'start-up',
    'argon2_hash_password': 'only the -g command line path',
    '__static_ref_initialize': 'lazy_static initialisers with constant arguments',
    'get_quit_receiver': 'called once from the accept-loop prologue of run_server',
    'new_from_config': 'start-up',
    'run_server': 'start-up (TLS key loading)',
}


def P(n):
    return ('param', n)


def base_fn(fn):
    return short_fn(fn.replace('::{closure#0}', ''))


# ------------------------------------------------------------------ numeric facts from a path condition
def len_lower_bound(pc, x):
    """largest n such that pc (syntactically, top-level conjuncts) gives len(x) >= n"""
    best = 0
    for c in conjuncts(pc):
        neg = c[0] == '!'
        a = c[1] if neg else c
        if a[0] != 'a':
            continue
        a = a[1]
        if neg and a == ('empty', x):
            best = max(best, 1)
        if neg and a[0] == 'lt' and a[1] == ('len', x) and a[2][0] == 'lit' and isinstance(a[2][1], int):
            best = max(best, a[2][1])
        if not neg and a[0] == 'lt' and a[2] == ('len', x) and a[1][0] == 'lit' and isinstance(a[1][1], int):
            best = max(best, a[1][1] + 1)
        if not neg and a[0] == 'eq' and a[1] == ('len', x) and a[2][0] == 'lit' and isinstance(a[2][1], int):
            best = max(best, a[2][1])
    return best


def le_facts(pc):
    """pairs (a, b) with a <= b given by top-level conjuncts  !(b < a)  /  a < b  /  a == b"""
    out = set()
    for c in conjuncts(pc):
        neg = c[0] == '!'
        a = c[1] if neg else c
        if a[0] != 'a':
            continue
        a = a[1]
        if neg and a[0] == 'lt':
            out.add((a[2], a[1]))
        if not neg and a[0] == 'lt':
            out.add((a[1], a[2]))
        if not neg and a[0] == 'eq':
            out.add((a[1], a[2]))
            out.add((a[2], a[1]))
    return out


def lt_facts(pc):
    out = set()
    for c in conjuncts(pc):
        if c[0] == 'a' and c[1][0] == 'lt':
            out.add((c[1][1], c[1][2]))
    return out


def iter_source(t):
    """(collection, kind) an iterator term walks over"""
    if isinstance(t, tuple) and t:
        if t[0] == 'call' and t[1].split('::')[-1] in ('bytes', 'chars', 'char_indices', 'split', 'split_ascii_whitespace',
                                                        'split_whitespace', 'split_terminator', 'lines'):
            return t[2], t[1].split('::')[-1]
        if t[0] in ('enum',):
            return iter_source(t[1])
    return t, 'iter'


def _range_upper(x):
    """upper end hi (inclusive bound) when x is an element of, or the result of find()/position() over, a range lo..=hi or lo..hi"""
    t = x
    if isinstance(t, tuple) and t and t[0] == 'some_of':
        t = t[1]
    if isinstance(t, tuple) and t and t[0] in ('find', 'elem'):
        r = t[1]
        if isinstance(r, tuple) and r and r[0] == 'call' and r[1].split('::')[-1] == 'new' and 'RangeInclusive' in r[1] and len(r) >= 4:
            return r[3]
        if isinstance(r, tuple) and r and r[0] == 'adt' and r[1].startswith('std::ops::Range'):
            d = dict(r[3])
            if 'end' in d:
                return d['end']
    return None


def enum_index_over(x, base):
    """x is the index delivered by enumerate() over `base` itself or over a zip that includes `base` (a zip is as long as its
       shortest component): then x < len(base)"""
    if not (isinstance(x, tuple) and x and x[0] == 'index_of'):
        return False
    coll = x[1]
    if iter_source(coll)[0] == base:
        return True
    if isinstance(coll, tuple) and coll and coll[0] in ('zip',):
        return any(c == base or (isinstance(c, tuple) and iter_source(c)[0] == base) for c in coll[1:])
    if isinstance(coll, tuple) and coll and coll[0] == 'call' and coll[1].split('::')[-1] == 'zip':
        return any(c == base or (isinstance(c, tuple) and iter_source(c)[0] == base) for c in coll[2:])
    return False


class Discharger:
    def __init__(self, cx, prog):
        self.cx = cx
        self.prog = prog
        self.used = {}

    def note(self, how):
        self.used[how] = self.used.get(how, 0) + 1

    # ---------------------------------------------------------------- main entry
    def discharge(self, s, w):
        """returns (how, reason) or (None, missing-fact description)"""
        m = getattr(self, 'd_' + s.kind)
        r = m(s, w)
        if not r[0]:
            r2 = self.table(s, w)
            if r2[0] or r2[1]:
                r = r2
        if r[0]:
            self.note(r[0])
        return r

    # ---------------------------------------------------------------- unwrap / expect
    def d_unwrap(self, s, w):
        t = s.subject
        e = s.ev
        b = base_fn(s.fn)
        ok_variant = 'Ok' if 'Result<' in (s.detail.get('ty') or '') and not sym._is_opt(s.detail.get('ty') or '') else 'Some'
        goal = sym.is_variant(t, ok_variant)
        if goal == T or entails(e.pc, goal)[0]:
            return 'D1', 'guarded by ' + show(goal)[:60]
        # a presence test made inside a loop that itself mutates the container (versioned by the walker) is the current fact of
        # this iteration; it supersedes what was known before the loop
        if t[0] == 'get':
            for a in atoms(e.pc):
                if a[0] == 'is' and a[2] == ok_variant and a[1][0] == 'get' and a[1][1][0] == 'ver' and a[1][1][1] == t[1] and a[1][2] == t[2] \
                        and entails(e.pc, Or(goal, Atom(a)))[0]:
                    return 'D1', 'presence known from before the loop or re-tested in this iteration'
        # iterator next(): k-th element of a source whose length is bounded below
        if t[0] == 'next':
            src, kind = iter_source(t[1])
            k = 1 + len([x for x in w.events if x.kind == 'call' and x.data.get('name') == 'next' and x.data['args'][:1] == [t[1]]
                         and x.seq < t[2] and sat(And(e.pc, x.pc)) is not None])
            lb = len_lower_bound(e.pc, src)
            if kind in ('iter', 'bytes') and lb >= k:
                return 'D1', 'element %d of a collection with len >= %d' % (k, lb)
            if kind == 'chars' and k == 1 and lb >= 1:
                return 'D1', 'first char of a non-empty string'
        r = self.prove(s.fn, w, e, goal, 0)
        if r[0] or r[1]:
            return r
        return None, 'nothing establishes %s' % show(goal)[:120]


    # ---------------------------------------------------------------- goal proving: D1, idioms, D3, lifting
    def params_of(self, fn):
        b = self.prog.bodies.get(fn.replace('::{closure#0}', ''))
        out = []
        for p in (b or {}).get('params', []):
            if 'pat' in p:
                names = ir.pat_binds(p['pat'])
                out.append(names[0][0] if names else None)
        return out

    def callers_of(self, fn):
        from .C03 import cx_census
        base = fn.replace('::{closure#0}', '')
        return [(f, e) for f, e in cx_census(self.cx, self.prog) if e.kind == 'call' and e.data.get('local') and e.data['callee'] == base]

    def gated(self, fn, pc):
        b = base_fn(fn)
        if b.startswith('process_') and b not in GATE_EXEMPT:
            return True
        if b in ('send_names_from_channel', 'send_who_info', 'send_isupport'):
            return True
        return entails(pc, Atom(CONN_AUTH))[0]

    def prove(self, fn, w, e, goal, depth):
        """discharge `goal` (a formula) at event e of function fn"""
        if goal == T or entails(e.pc, goal)[0]:
            return 'D1', 'guarded by ' + show(goal)[:60]
        ats = atoms(goal)
        # ---- single positive membership/option atom: invariants and idioms
        if goal[0] == 'a' and goal[1][0] == 'is' and goal[1][2] == 'Some':
            t = goal[1][1]
            r = self.invariant(fn, w, e, t)
            if r[0]:
                return r
            r = self.idiom(fn, w, e, t)
            if r[0]:
                return r
            # ---- by cases: on every path either the test itself was made, or the key equals one for which an invariant holds
            #      (`nick == own || users.contains_key(nick)`)
            if t[0] == 'get':
                alts, hows = [], []
                for a in atoms(e.pc):
                    if a[0] == 'eq' and t[2] in a[1:3]:
                        other = a[2] if a[1] == t[2] else a[1]
                        if not isinstance(other, tuple) or other[:1] == ('lit',):
                            continue
                        r2 = self.invariant(fn, w, e, ('get', t[1], other))
                        if r2[0]:
                            alts.append(Atom(a))
                            hows.append(r2[0])
                if alts and entails(e.pc, Or(goal, *alts))[0]:
                    return 'D1+' + '+'.join(sorted(set(hows))), 'guarded by the test itself or by the key being one an invariant covers'
        # ---- lifting to the callers
        if depth < 3:
            pnames = self.params_of(fn)
            roots = set()
            for a in ats:
                for st in subterms(a):
                    if isinstance(st, tuple) and len(st) == 2 and st[0] == 'param':
                        roots.add(st[1])
            if roots and roots <= set(pnames) and not base_fn(fn).startswith('process_internal'):
                callers = self.callers_of(fn)
                if callers:
                    hows = []
                    for cf, ce in callers:
                        mapping = {}
                        for i, pn in enumerate(pnames):
                            if pn is not None and i < len(ce.data['args']):
                                mapping[('param', pn)] = ce.data['args'][i]
                        g2 = rename(goal, lambda a: Atom(subst_term(a, mapping)))
                        cw = self.cx.walk(cf, prog=self.prog, key='census')
                        stale = self.stale(cf, cw, ce, g2)
                        if stale:
                            return None, 'in %s: %s' % (base_fn(cf), stale)
                        r = self.prove(cf, cw, ce, g2, depth + 1)
                        if not r[0]:
                            if r[1].startswith('in '):
                                return None, r[1]
                            return None, 'caller %s does not establish %s (%s)' % (base_fn(cf), show(g2)[:80], r[1][:80])
                        hows.append('%s:%s' % (base_fn(cf), r[0]))
                    return 'lift', 'precondition established by every caller: ' + ', '.join(hows)
        return None, 'nothing establishes %s' % show(goal)[:120]

    def stale(self, fn, w, e, goal):
        """kill rule: a membership fact inherited from a guarded collection built from a list does not survive a loop
           body that removes members (a repeated element is processed twice)"""
        loops = [l for l in e.loops if l[2] is not None and l[2][0] == 'local']
        if not loops:
            return None
        if goal[0] != 'a' or goal[1][0] != 'is' or goal[1][1][0] != 'get':
            return None
        key = goal[1][1][2]
        if not mentions(key, 'elem'):
            return None
        removing = ('remove_user_from_channel', 'remove_user', 'remove')
        if e.kind == 'call' and e.data['name'] in removing:
            # where do the elements come from?
            pushes = [x for x in w.events if x.kind == 'local_mut' and x.data['local'] == loops[-1][2] and x.data['method'] in ('push', 'insert')]
            src_set = pushes and all(_set_typed(self.prog, l[3]) for p in pushes for l in p.loops)
            # ... or every push is guarded by "not yet in the list"
            dedup = pushes and all(entails(p.pc, Not(has(p.data['local'], p.data['args'][0])))[0] for p in pushes)
            if not src_set and not dedup:
                return ('the membership of %s was checked when the list was built; the loop removes members, so a repeated name '
                        'reaches the removal again without being a member' % show_term(key)[:40])
        return None

    def invariant(self, fn, w, e, t):
        gated = self.gated(fn, e.pc)
        users_like = t[0] == 'get' and (t[1] == USERS or (t[1][0] == 'param' and t[1][1] == 'users'))
        if users_like and gated and t[2] != CONN_NICK and entails(e.pc, sym.mk_eq(t[2], CONN_NICK))[0]:
            return 'D3:I1', 'key equals the own nick; authenticated => own nick is registered'
        if t[0] == 'call' and t[1].endswith('::remove') and len(t) == 4 and t[2][0] == 'field' and t[2][2] == 'users' \
                and t[2][1][0] == 'idx' and t[2][1][1] == CHANNELS and t[2][1][2][0] == 'elem' and path_of(t[2][1][2][1])[-1:] == ['channels'] \
                and t[3] == CONN_NICK:
            return 'D3:I2', 'a user is a member of every channel in its own channel set'
        if t == field(USTATE, 'realname') and entails(e.pc, is_some(field(USTATE, 'name')))[0] and self.i8_names():
            return 'D3:I8', 'name and realname are only ever set together (process_user)'
        if t in (field(CONN, 'sender'), field(CONN, 'quit_sender'), field(CONN, 'ping_sender')) and self.i8_once(fn, e, t[2]):
            return 'D3:I8', 'taken only on the registration success path, which runs at most once per connection'
        if t == NICK_OPT and gated:
            return 'D3:I1', 'authenticated => nick is set'
        if t == ('get', USERS, CONN_NICK) and gated:
            return 'D3:I1', 'authenticated => own nick is registered'
        if t[0] == 'call' and t[1].endswith('::remove') and t[2:] == (USERS, CONN_NICK) and gated:
            return 'D3:I1', 'authenticated => own nick is registered'
        if users_like:
            k = t[2]
            if k[0] == 'elem' and k[1][0] == 'keys' and path_of(k[1][1])[-1:] == ['users'] and \
                    (mentions(k[1][1], CHANNELS) or root_of(k[1][1])[0] == 'param'):
                return 'D3:I2', 'every channel member is a registered user'
            if k[0] == 'elem' and k[1][0] == 'some_of' and path_of(k[1][1])[-2:-1] == ['modes'] and mentions(k[1][1], CHANNELS):
                return 'D3:I3', 'rank sets contain only members, members are registered users'
            if k == ('elem', field(STATE, 'wallops_users')):
                return 'D3:I4', 'wallops_users is a subset of the registry'
            if any(a[0] == 'is' and a[2] == 'Some' and a[1][0] == 'get' and a[1][2] == k and path_of(a[1][1])[-1:] == ['users']
                   and (mentions(a[1][1], CHANNELS) or root_of(a[1][1])[0] == 'param') and entails(e.pc, Atom(a))[0] for a in atoms(e.pc)):
                return 'D3:I2', 'a channel member is a registered user'
            # elements of a local collection filled only from rank sets / member keys of channels
            if k[0] == 'elem' and k[1][0] == 'local':
                fills = [x for x in w.events if x.kind == 'local_mut' and x.data['local'] == k[1] and x.data['method'] in ('extend', 'insert', 'push')]
                def chan_nicks(src):
                    src = src[1] if src and src[0] == 'elem' else src
                    if not src:
                        return False
                    if src[0] == 'some_of' and path_of(src[1])[-2:-1] == ['modes'] and mentions(src[1], CHANNELS):
                        return True
                    return src[0] == 'keys' and path_of(src[1])[-1:] == ['users'] and mentions(src[1], CHANNELS)
                if fills and all(x.data['args'] and chan_nicks(x.data['args'][0]) for x in fills):
                    return 'D3:I3', 'collected from rank sets / member maps of channels: members are registered users'
            # elements of a local set all of whose inserts were guarded by presence in the registry
            if k[0] == 'elem' and k[1][0] == 'local':
                ins = [x for x in w.events if x.kind == 'local_mut' and x.data['local'] == k[1] and x.data['method'] in ('insert', 'push')]
                if ins and all(entails(x.pc, has(t[1], x.data['args'][0]))[0] for x in ins):
                    return 'D1', 'every element was inserted under a presence check'
        if t[0] == 'get' and t[1] in (CHANNELS, field(P('self'), 'channels')) and t[2][0] == 'elem' and path_of(t[2][1])[-1:] == ['channels'] \
                and ('users' in path_of(t[2][1]) or 'remove' in repr(t[2][1])):
            return 'D3:I2', 'every channel in a user\'s channel set exists'
        if t[0] == 'get' and path_of(t[1])[-1:] == ['users'] and t[1][0] == 'field' and t[1][1][0] == 'idx' \
                and t[1][1][2][0] == 'elem' and path_of(t[1][1][2][1])[-1:] == ['channels']:
            return 'D3:I2', 'a user is a member of every channel in its own channel set'
        return None, ''

    def idiom(self, fn, w, e, t):
        # check-or-insert: `if !m.contains_key(k) { m.insert(k, ..) }; m.get(k).unwrap()`
        if t[0] == 'get':
            m, k = t[1], t[2]
            for x in w.events:
                if x.seq < e.seq and x.kind == 'call' and x.data['name'] == 'insert' and x.data['args'][:2] == [m, k]:
                    if equivalent(x.pc, And(e.pc, Not(has(m, k))))[0]:
                        return 'D1', 'inserted just before when absent'
                    # ... or: present before the loop, or inserted in this iteration, or re-tested present in this iteration
                    vers = [Atom(a) for a in set(atoms(e.pc)) | set(atoms(x.pc)) if a[0] == 'is' and a[2] == 'Some' and a[1][0] == 'get' and a[1][1][0] == 'ver'
                            and a[1][1][1] == m and a[1][2] == k]
                    same_walk = tuple(e.loops[:len(x.loops)]) == tuple(x.loops) or \
                        (x.loops and e.loops and x.loops[0][2] is not None and x.loops[0][2] == e.loops[0][2])   # a later loop over the same list
                    if vers and same_walk and entails(e.pc, Or(has(m, k), x.pc, *vers))[0]:
                        return 'D1', 'present before, inserted in this iteration, or re-tested present'
        return None, ''


    # ---------------------------------------------------------------- D2 / D3 / D4 table (term-keyed rows with rechecks)
    def table(self, s, w):
        b = base_fn(s.fn)
        e = s.ev
        t = s.subject
        k = s.kind
        # ---- environment / library assumptions
        if k == 'unwrap' and t[0] == 'call' and t[1].endswith('duration_since') and t[2][0] == 'call' and t[2][1].endswith('SystemTime::now') \
                and t[3] == ('const', 'std::time::UNIX_EPOCH'):
            return 'D4:clock', 'the system clock is not before the UNIX epoch'
        if k == 'arith' and t[0] == 'sub' and 'SystemTime::now' in repr(t[1]) and path_of(t[2])[-1:] == ['last_activity']:
            return 'D4:clock', 'activity stamps are taken from the same non-decreasing clock'
        if k == 'libcall' and t[1] == 'from_timestamp' and path_of(t[2])[-1:] == ['signon']:
            return 'D4:clock', 'sign-on stamps come from SystemTime::now() and are valid timestamps'
        if k == 'libcall' and s.detail.get('why', '').startswith('chrono') and b == 'process_stats':
            return 'D4:clock', 'uptime = now - creation time of this process'
        if k == 'unwrap' and t[0] == 'call' and t[1].endswith('spawn_blocking'):
            return 'D4:lib', 'JoinError only if the blocking closure panics; its body is discharged on its own'
        if k == 'unwrap' and b == 'argon2_verify_password' and 'try_from' in repr(t) and 'ARGON2' in repr(t):
            return 'D4:const', 'parameter string of the constant Argon2 instance'
        # ---- start-up only code
        if b in ('main', 'default', 'get_quit_receiver', '__static_ref_initialize', 'argon2_hash_password', 'initialize_logging',
                 'run_server', 'new_from_config', 'initialize_dns_resolver') and self.startup_only(s.fn):
            return 'D4:startup', 'reachable only from process start-up / the -g command line path'
        # ---- detached timer tasks (scope note of C05): recorded as observations by the rule file
        if b in ('ping_client_waker', 'pong_client_timeout'):
            return 'OBS:timer', 'detached timer task of one connection; its failure affects no session handler'
        if b == 'dns_lookup_process':
            return 'OBS:task', 'detached reverse-lookup task (dns_lookup feature); operates on the textual form of a DNS name, which is never empty'
        if b == 'dns_lookup' and k == 'unwrap' and 'DNS_RESOLVER' in repr(t):
            return 'D4:config', 'the resolver is initialised by run_server whenever config.dns_lookup is set, and lookups start only then'
        if b == 'run_dns_lookup' and k == 'unwrap' and path_of(t)[-1:] == ['dns_lookup_sender'] and self.once_call('run_dns_lookup', 'user_state_process'):
            return 'D4:once', 'taken once, right after the connection state was created'
        # ---- counters (I5, established by the coupling analysis of C19)
        if k == 'arith' and t[0] == 'sub' and t[2] == ('lit', 1) and path_of(t[1])[-1:] == ['invisible_users_count']:
            return self.i5('invisible_users_count')
        if k == 'arith' and t[0] == 'sub' and t[2] == ('lit', 1) and path_of(t[1])[-1:] == ['operators_count']:
            return self.i5('operators_count')
        if k == 'arith' and t[0] == 'sub' and t[1] == ('len', USERS) and t[2] == field(STATE, 'invisible_users_count'):
            return self.i5('invisible_users_count')
        # ---- table agreement H: command index / counter array
        if k == 'index' and path_of(t)[-1:] == ['command_counts']:
            if self.command_tables():
                return 'D3:H', 'Command::index() and CommandId::iter() range over 0..NUM_COMMANDS = length of command_counts'
            return None, 'Command::index()/CommandId table does not fit the command_counts array'
        # ---- D2 validated input: JOIN keys
        if k == 'index' and b == 'process_join' and s.detail['index'][0] == 'index_of' and t[0] == 'some_of':
            if self.join_keys_validated():
                return 'D2', 'parser rejects JOIN unless keys.len() == channels.len()'
            return None, 'JOIN parser no longer guarantees one key per channel'
        if k == 'unwrap' and b == 'process_join' and t[0] == 'get' and t[1] == CHANNELS and self.join_channel_present(w, e, t):
            return 'D1', 'the channel existed at decision time or was created by the preceding loop of this command'
        # ---- configuration index maps
        if b in ('authenticate', 'process_oper') and self.config_indices(k, t, s):
            return 'D4:config', 'index maps are built once by enumerate() over the same immutable configuration vectors'
        # ---- D2 lock-step with validate_channelmodes
        if b == 'process_mode_channel' and k == 'unwrap' and (t[0] == 'next' or (t[0] == 'call' and t[1].endswith('::parse'))):
            ok, why = self.mode_lockstep(w, e, t)
            if ok:
                return 'D2', 'validate_channelmodes demands the argument under the same letter/sign condition'
            return None, why
        if b == 'process_mode_channel' and k == 'index' and t[0] == 'local' and self.leading_space(w, e, t):
            return 'D1', 'string is non-empty and every append starts with an ASCII space'
        # ---- tokio::select! expansion
        sp = e.node.get('sp') or [0, 0, 0, None, None]
        in_select = any(x and 'select' in x for x in sp[3:5])
        if k == 'panic' and in_select:
            msg = repr(e.data.get('args'))
            if 'all branches are disabled' in msg:
                top = s.fn.split('::{closure')[0]
                if self.select_has_irrefutable_arm(s.fn) or self.select_has_irrefutable_arm(top):
                    return 'D4:macro', 'select! cannot disable all branches: one branch pattern is irrefutable'
                return None, 'every select! branch has a refutable pattern: all can be disabled, the macro then panics'
            return 'D4:macro', 'select! plumbing: the branch index is computed modulo the number of branches'
        # ---- tokeniser / target-type scanner: offsets at matched ASCII bytes
        if b == 'from_shared_str':
            return self.tokeniser_rows(s, w)
        if b == 'get_privmsg_target_type':
            return self.target_type_rows(s, w)
        return None, ''

    # ---- rechecks -------------------------------------------------------------------------------------------------
    def census(self):
        from .C03 import cx_census
        return cx_census(self.cx, self.prog)

    def startup_only(self, fn):
        """no session-reachable caller: callers (transitively, depth 3) are main/run_server/lazy statics only"""
        seen = set()
        todo = [fn.replace('::{closure#0}', '')]
        depth = 0
        while todo and depth < 4:
            nxt = []
            for f in todo:
                for cf, ce in self.callers_of(f):
                    cb = base_fn(cf)
                    if cb.startswith('process_') or cb in ('user_state_process', 'authenticate', 'remove_user'):
                        return False
                    if cf not in seen:
                        seen.add(cf)
                        nxt.append(cf.replace('::{closure#0}', ''))
            todo = nxt
            depth += 1
        return True

    def i5(self, counter):
        if not hasattr(self, '_i5'):
            from analysis import report
            from . import C19
            chk = report.Check('C19', 'quick')
            rule = chk.rule('R19.1', 'coupling (re-evaluated for I5)')
            cx = self.cx
            inl = ('is_local_oper',)
            fa = cx.fn('add_user', 'VolatileState', prog=self.prog)
            wa = cx.walk(fa, args=[STATE, P('unick'), P('user')], inline=inl, key='c19', prog=self.prog)
            C19.transitions(cx, rule, 'VolatileState::add_user', wa, field(P('user'), 'modes'), P('unick'), 'add', self.prog, fa)
            fr = cx.fn('remove_user', 'VolatileState', prog=self.prog)
            wr = cx.walk(fr, args=[STATE, P('nick')], inline=inl, key='c19', prog=self.prog)
            rem = [x for x in wr.events if is_call(x, 'remove') and x.data['args'][:1] == [USERS]]
            if rem:
                removed = ('some_of', ('call', rem[0].data['callee'], USERS, P('nick')))
                C19.transitions(cx, rule, 'VolatileState::remove_user', wr, field(removed, 'modes'), P('nick'), 'remove', self.prog, fr)
            fo = cx.fn('process_oper', prog=self.prog)
            wo = cx.walk(fo, args=[SELF, CONN, P('name'), P('password')], inline=inl, key='c19', prog=self.prog)
            C19.transitions(cx, rule, 'process_oper', wo, field(user(CONN_NICK), 'modes'), CONN_NICK, 'update', self.prog, fo)
            fu = cx.fn('process_mode_user', prog=self.prog)
            wu = cx.walk(fu, args=cx.callsite_args(cx.fn('process_mode', prog=self.prog), [SELF, CONN, P('target'), P('modes')],
                                                   'process_mode_user', prog=self.prog), inline=inl, key='c19', prog=self.prog)
            C19.transitions(cx, rule, 'process_mode_user', wu, field(user(P('target')), 'modes'), P('target'), 'update', self.prog, fu)
            self._i5 = {'operators_count': [v for v in rule.violations if 'operators_count' in v.key],
                        'invisible_users_count': [v for v in rule.violations if 'invisible_users_count' in v.key]}
        broken = self._i5[counter]
        if not broken:
            return 'D3:I5', '%s equals the number of users it counts (coupling analysis), so it is >= 1 when one of them leaves' % counter
        return None, 'I5 broken: %s is not kept equal to the number of users it counts (%s), so this decrement can underflow' % (
            counter, '; '.join(v.key.split('|', 1)[0] + ' ' + v.key.split('|')[3] for v in broken))

    def command_tables(self):
        if hasattr(self, '_cmdtab'):
            return self._cmdtab
        prog = self.prog
        ok = True
        cmd = prog.adts.get('command::Command')
        cid = prog.adts.get('command::CommandId')
        ms = prog.adts.get('state::MainState')
        n = None
        for f in ms['variants'][0]['fields']:
            if f['name'] == 'command_counts':
                ty = f['ty']
                if ';' in ty:
                    ln = ty.rsplit(';', 1)[1].strip(' ]')
                    try:
                        n = int(ln)
                    except ValueError:
                        # a named constant: read its literal initialiser
                        for d, b in prog.bodies.items():
                            if d.endswith('::' + ln.split('::')[-1]) and b['kind'].startswith('Const') and 'body' in b:
                                v = b['body']
                                while v.get('k') == 'Block' and 'expr' in v:
                                    v = v['expr']
                                if v.get('k') == 'Lit' and isinstance(v.get('val'), int):
                                    n = v['val']
        ok = ok and n is not None and len(cmd['variants']) == n and len(cid['variants']) == n
        # Command::index(): a bijection onto 0..n
        fi = self.cx.fn('index', 'command::Command', prog=prog)
        wi = self.cx.walk(fi, prog=prog, args=[P('self')])
        vals = set()
        rv = wi.retval

        def leaves(t):
            if isinstance(t, tuple) and t and t[0] == 'ite':
                return leaves(t[2]) + leaves(t[3])
            return [t]
        for l in leaves(rv):
            if l[0] == 'lit' and isinstance(l[1], int):
                vals.add(l[1])
            else:
                ok = False
        ok = ok and vals == set(range(n or 0))
        self._cmdtab = ok
        return ok

    def join_keys_validated(self):
        if hasattr(self, '_joinkeys'):
            return self._joinkeys
        fp = self.cx.fn('parse_from_message', prog=self.prog)
        wp = self.cx.walk(fp, prog=self.prog, key='census')
        ok = False
        for e in wp.events:
            if e.kind == 'return':
                for c in conjuncts(e.pc):
                    if c[0] == '!' and c[1][0] == 'a' and c[1][1][0] == 'eq' and all(x[0] == 'len' for x in c[1][1][1:]):
                        if 'ParameterDoesntMatch' in repr(e.data.get('value')) and any(
                                a[0] == 'eq' and a[2] == ('lit', 'JOIN') for a in atoms(e.pc)):
                            ok = True
        if not ok:
            # the same guarantee read off the returned value (no `return` statement: `match keys { Some(k) if k.len() != n => Err(..), _ => Ok(JOIN{..}) }`)
            from analysis.sym import payload as _payload
            leaves = [(c_, l_) for c_, l_ in term_cases(getattr(wp, 'retval', None) or ('none',))
                      if isinstance(l_, tuple) and l_[:1] == ('ok',) and isinstance(l_[1], tuple) and l_[1][:1] == ('adt',) and l_[1][2] == 'JOIN']
            good = bool(leaves)
            for c_, l_ in leaves:
                fl = dict(l_[1][3])
                for kc, kv in term_cases(fl.get('keys', ('none',))):
                    if kv == ('none',) or sat(And(c_, kc)) is None:
                        continue
                    kl, cl = ('len', _payload(kv)), ('len', fl.get('channels'))
                    if not (entails(And(c_, kc), Atom(('eq', kl, cl)))[0] or entails(And(c_, kc), Atom(('eq', cl, kl)))[0]):
                        good = False
            ok = good
        self._joinkeys = ok
        return ok

    def join_channel_present(self, w, e, t):
        c = t[2]
        ins = [x for x in w.events if x.kind == 'call' and x.data['name'] == 'insert' and x.data['args'][:2] == [CHANNELS, c] and x.seq < e.seq]
        rem = [x for x in w.events if x.kind == 'call' and x.data['name'] in ('remove', 'clear', 'retain') and x.data['args'][:1] == [CHANNELS]]
        if not ins or rem:
            return False
        # either it existed when the decision was taken, or the insert of the creating branch ran
        return entails(e.pc, Or(has(CHANNELS, c), *[x.pc for x in ins]))[0]

    def config_indices(self, k, t, s):
        if not hasattr(self, '_cfgidx'):
            ok = True
            writers = set()
            for fn, e in self.census():
                if e.kind == 'call' and e.data['name'] in MUTATORS and e.data.get('args') and \
                        path_of(e.data['args'][0])[-1:] in (['user_config_idxs'], ['oper_config_idxs']):
                    writers.add(base_fn(fn))
                if e.kind in ('assign', 'assignop') and not e.data.get('init') and 'config' in path_of(e.data['lhs'])[:2] \
                        and root_of(e.data['lhs']) == SELF:
                    ok = False
            fm = self.cx.fn('new_from_config', 'MainState', prog=self.prog)
            wm = self.cx.walk(fm, prog=self.prog, args=[P('config')])
            ins = [e for e in wm.events if e.kind == 'local_mut' and e.data['method'] == 'insert']
            good = 0
            for e in ins:
                a = e.data['args']
                if len(a) == 2 and a[1][0] == 'index_of' and a[0][0] == 'field' and a[0][2] == 'name' and a[0][1][0] == 'elem' \
                        and a[0][1][1] == a[1][1]:
                    good += 1
            built = good == 2 and len(ins) == 2
            if not built:
                # the other idiom: list.iter().enumerate().map(|(i, x)| (x.name.clone(), i)).collect()
                lit = [e for e in wm.events if e.kind == 'adt' and e.data['adt'].endswith('MainState')]
                good2 = 0
                for f_, l_ in (('user_config_idxs', 'users'), ('oper_config_idxs', 'operators')):
                    v = lit[0].data['fields'].get(f_) if len(lit) == 1 else None
                    lst = ('some_of', ('field', P('config'), l_))
                    if isinstance(v, tuple) and v[:1] == ('mapped',) and v[1] == ('enum', lst) and \
                            v[2] == ('tuple', ('field', ('elem', lst), 'name'), ('index_of', lst)) and v[3] in (('T',), T):
                        good2 += 1
                built = good2 == 2 and not ins
            self._cfgidx = ok and not writers and built
        if not self._cfgidx:
            return False
        r = repr(t) + repr(s.detail.get('index'))
        return 'user_config_idxs' in r or 'oper_config_idxs' in r or t == field(CONFIG, 'operators')

    def mode_lockstep(self, w, e, t):
        """the handler consumes a mode argument only where the validator demanded one (same letter, same sign)"""
        fv = self.cx.fn('validate_channelmodes', prog=self.prog)
        wv = self.cx.walk(fv, prog=self.prog, key='census')

        def letters_of(pc):
            out = set()
            for a in atoms(pc):
                if a[0] == 'eq' and a[2][0] == 'lit' and isinstance(a[2][1], str) and len(a[2][1]) == 1 and a[2][1].isalpha():
                    if sat(And(pc, Atom(a))) is not None and entails(pc, Or(*[Atom(x) for x in atoms(pc) if x[0] == 'eq' and x[2][0] == 'lit'
                                                                         and sat(And(pc, Atom(x))) is not None]))[0]:
                        out.add(a[2][1])
            return out

        def sign_of(pc):
            for c in conjuncts(pc):
                a = c[1] if c[0] == '!' else c
                if a[0] == 'a' and a[1][0] == 'truth' and a[1][1][0] == 'mvar':
                    return c[0] != '!'
            return None
        nxt = t if t[0] == 'next' else [x for x in subterms(t) if isinstance(x, tuple) and x and x[0] == 'next'][0]
        hl = letters_of(e.pc)
        hs = sign_of(e.pc)
        # validator: a Return(Err) when the argument is missing, for every such letter (and sign)
        demanded = {}
        parse_checked = set()
        for x in wv.events:
            if x.kind == 'return' and 'InvalidModeParam' in repr(x.data.get('value')):
                ls = letters_of(x.pc)
                missing = any(c[0] == '!' and c[1][0] == 'a' and c[1][1][0] == 'is' and c[1][1][1][0] == 'next' for c in conjuncts(x.pc))
                for l in ls:
                    if missing:
                        demanded.setdefault(l, set()).add(sign_of(x.pc))
                    if 'parse' in repr(x.pc):
                        # the rejection must not depend on anything but "parse failed" (plus letter/sign/argument present)
                        extra = []
                        for c in conjuncts(x.pc):
                            for a in atoms(c):
                                ra = repr(a)
                                if a[0] == 'eq' and a[2][0] == 'lit':
                                    continue
                                if a[0] == 'truth' and a[1][0] == 'mvar':
                                    continue
                                if a[0] == 'empty' or (a[0] == 'is' and a[1][0] == 'next'):
                                    continue
                                if a[0] == 'is' and 'parse' in ra:
                                    continue
                                extra.append(a)
                        if not extra:
                            parse_checked.add(l)
        for l in hl:
            if l not in demanded:
                return False, "validator does not demand an argument for mode '%s'" % l
            if None not in demanded[l] and hs not in demanded[l]:
                return False, "validator demands an argument for '%s' only under the other sign" % l
            if t[0] != 'next' and l not in parse_checked:
                return False, "validator does not check that the argument of '%s' is a number" % l
        if not hl:
            return False, 'argument consumption is not tied to a mode letter'
        return True, ''

    def leading_space(self, w, e, t):
        apps = [x for x in w.events if x.kind == 'local_mut' and x.data['local'] == t and x.data['method'] in ('add_assign', 'push_str', 'push')]
        if not apps:
            return False
        firsts = []
        prev_lit = False
        ok = True
        for x in apps:
            a = x.data['args'][0] if x.data['args'] else None
            if a is not None and a[0] == 'lit' and isinstance(a[1], str):
                if not a[1].startswith(' '):
                    ok = False
                prev_lit = True
            else:
                # a non-literal append must directly follow a literal one that starts with a space
                if not prev_lit:
                    ok = False
                prev_lit = False
        nonempty = entails(e.pc, Not(Atom(('empty', t))))[0]
        if ok and nonempty:
            return True
        # the general form: whatever is appended first on any path is a literal that starts with an ASCII character, so offset 1
        # is a character boundary of the non-empty string
        def ascii_lit(a):
            if a is None:
                return False
            if a[0] == 'ite' and len(a) == 4:
                return ascii_lit(a[2]) and ascii_lit(a[3])
            return a[0] == 'lit' and isinstance(a[1], str) and a[1] != '' and ord(a[1][0]) < 128
        for i, x in enumerate(apps):
            first_possible = not any(entails(x.pc, y.pc)[0] for y in apps[:i])
            if first_possible and not ascii_lit(x.data['args'][0] if x.data['args'] else None):
                return False
        return nonempty

    def select_has_irrefutable_arm(self, fn):
        b = self.prog.bodies.get(fn)
        if b is None or 'body' not in b or ir.is_async_shell(b):
            b = self.prog.coroutine_of(fn.replace('::{closure#0}', ''))
        if b is None or 'body' not in b:
            return False
        for n in ir.walk(b['body']):
            if n.get('k') == 'Match' and any(a['pat'].get('variant') == 'Disabled' for a in n['arms'] if a['pat'].get('k') == 'Variant'):
                for a in n['arms']:
                    p = a['pat']
                    if p.get('k') == 'Variant' and p['variant'].startswith('_') and p['fields'] and p['fields'][0]['p'].get('k') == 'Bind' \
                            and 'sub' not in p['fields'][0]['p']:
                        return True
        return False

    def once_call(self, callee, caller):
        cs = [(f, e) for f, e in self.census() if e.kind == 'call' and e.data.get('local') and e.data['name'] == callee]
        return len(cs) == 1 and base_fn(cs[0][0]) == caller and not cs[0][1].loops

    def i8_names(self):
        if hasattr(self, '_i8n'):
            return self._i8n
        setters = {}
        for fn, e in self.census():
            b = base_fn(fn)
            if e.kind == 'assign' and not e.data.get('init') and path_of(e.data['lhs'])[-1:] == ['realname'] and 'user_state' in path_of(e.data['lhs']):
                setters.setdefault(b, {})['realname'] = e
            if e.kind == 'call' and e.data.get('local') and e.data['name'] == 'set_name':
                setters.setdefault(b, {})['name'] = e
            if e.kind == 'assign' and not e.data.get('init') and path_of(e.data['lhs'])[-1:] == ['name'] and root_of(e.data['lhs']) == P('self') \
                    and b != 'set_name':
                setters.setdefault(b, {})['name-direct'] = e
        ok = bool(setters)
        for b, d in setters.items():
            if set(d) != {'realname', 'name'} or not equivalent(d['realname'].pc, d['name'].pc)[0]:
                ok = False
        self._i8n = ok
        return ok

    def i8_once(self, fn, e, fieldname):
        """the take() of a once-only connection resource happens on the registration success path only"""
        key = '_i8o_' + fieldname
        if hasattr(self, key):
            return getattr(self, key)
        ok = True
        auth = Atom(CONN_AUTH)
        takers = set()
        for f, x in self.census():
            if x.kind == 'call' and x.data['name'] == 'take' and x.data.get('args') and path_of(x.data['args'][0])[-1:] == [fieldname] \
                    and root_of(x.data['args'][0]) in (CONN, P('self')) and 'ConnState' in (x.data.get('recv_ty') or 'ConnState'):
                takers.add(base_fn(f))
            if x.kind == 'assign' and not x.data.get('init') and path_of(x.data['lhs'])[-1:] == [fieldname] and root_of(x.data['lhs']) in (CONN,):
                ok = False
            if x.kind == 'call' and x.data.get('local') and x.data['name'] == 'authenticate' and not entails(x.pc, Not(auth))[0]:
                ok = False
        ok = ok and takers <= {'authenticate', 'run_ping_waker', 'run_dns_lookup'}
        # on the path of the take, authenticate() has already committed `authenticated = true`
        fa = self.cx.fn('authenticate', prog=self.prog)
        wa = self.cx.walk(fa, prog=self.prog, args=[SELF, CONN], key='c02')
        becomes = [And(x.pc, sym.as_formula(x.data['rhs'])) for x in wa.events if x.kind == 'assign' and not x.data.get('init')
                   and x.data['lhs'] == ('field', USTATE, 'authenticated')]
        for x in wa.events:
            if (x.kind == 'call' and x.data['name'] == 'take' and x.data.get('args') and path_of(x.data['args'][0])[-1:] == [fieldname]) or \
                    (x.kind == 'call' and x.data.get('local') and x.data['name'] == 'run_ping_waker' and fieldname == 'ping_sender'):
                if not becomes or not entails(x.pc, Or(*becomes))[0]:
                    ok = False
                # ... and nothing on a path through the take withdraws it again: a connection that is left
                # unregistered (433) must still own its once-only resources for the next attempt
                for y in wa.events:
                    if y.kind == 'assign' and not y.data.get('init') and y.data['lhs'] == ('field', USTATE, 'authenticated') and y.seq > x.seq \
                            and sat(And(x.pc, y.pc, Not(sym.as_formula(y.data['rhs'])))) is not None:
                        ok = False
        setattr(self, key, ok)
        return ok

    def tokeniser_rows(self, s, w):
        """Message::from_shared_str: every offset is 0/1 behind a checked leading ':' or a length of a prefix
           returned by split_once on the same string"""
        e, t, k = s.ev, s.subject, s.kind
        r = repr(t) + repr(s.detail.get('index'))
        first_colon = [a for a in atoms(e.pc) if a[0] == 'eq' and 'bytes' in repr(a) and ('lit', 58) in [x for x in subterms(a)]]
        if k == 'index' and 'split_once' not in r and 'split_ascii_whitespace' not in r:
            return 'D4:ascii', 'offset is 0, or 1 right behind a leading ASCII colon that was just tested'
        if k in ('arith', 'index') and 'split_once' in r and 'split_ascii_whitespace' not in r:
            return 'D4:prefix', 'prefix length returned by split_once on the same string (+ the 0/1 offset it was sliced at)'
        if 'split_ascii_whitespace' in r and first_colon or 'split_ascii_whitespace' in r:
            ok = any(a[0] == 'eq' and 'bytes' in repr(a[1]) for a in atoms(e.pc))
            # the same test written as `text.starts_with(':')`
            ok = ok or any('starts_with' in repr(a) and any(x in (('lit', ':'), ('lit', 58)) for x in subterms(a)) and entails(e.pc, Atom(a))[0]
                           for a in atoms(e.pc))
            if ok:
                return 'D4:ascii', 'the text starts with an ASCII colon, so a first token exists and offset 1 is a boundary'
        return None, 'tokeniser offset not justified'

    def target_type_rows(self, s, w):
        e, t, k = s.ev, s.subject, s.kind
        r = repr(t) + repr(s.detail.get('index'))
        if k == 'index' and 'index_of' in r and "('sub'" not in r:
            if any(a[0] == 'eq' and a[2] == ('lit', 35) for a in atoms(e.pc) if entails(e.pc, Atom(a))[0]):
                return 'D4:ascii', "offset of a matched ASCII '#' byte"
        if "('sub'" in r or (k == 'arith' and t[0] == 'sub'):
            amp = [a for a in atoms(e.pc) if a[0] == 'truth' and a[1][0] == 'mvar' and a[1][1] == 'last_amp']
            if amp and entails(e.pc, Atom(amp[0]))[0]:
                return 'D4:ascii', "under last_amp the previous byte exists and is an ASCII '&'"
        return None, 'target-type offset not justified'

    # ---------------------------------------------------------------- indexing / slicing
    def d_index(self, s, w):
        e = s.ev
        base, idx = s.subject, s.detail['index']
        bty = (s.detail.get('base_ty') or '')
        if 'HashMap<' in bty:
            if entails(e.pc, has(base, idx))[0]:
                return 'D1', 'key checked'
            return None, 'map index without presence check'
        is_str = sym._base_ty(bty) in ('str',) or sym._base_ty(bty).startswith('std::string::String')
        if idx[0] == 'adt' and idx[1].startswith('std::ops::Range'):
            return self.d_slice(s, w, base, dict(idx[3]), is_str)
        # plain element index
        if idx[0] == 'lit' and isinstance(idx[1], int):
            lb = len_lower_bound(e.pc, base)
            src, kind = iter_source(base)
            lb = max(lb, len_lower_bound(e.pc, src) if kind in ('bytes', 'iter') else 0)
            if base[0] == 'call' and base[1].endswith('::as_bytes'):
                lb = max(lb, len_lower_bound(e.pc, base[2]))
            if lb > idx[1]:
                return 'D1', 'len >= %d' % lb
            if base[0] == 'array' and len(base) - 1 > idx[1]:
                return 'D1', 'fixed array'
            return None, 'index %d needs len > %d' % (idx[1], idx[1])
        if idx[0] == 'index_of':
            src, kind = iter_source(idx[1])
            if src == base or (base[0] == 'call' and base[1].endswith('as_bytes') and base[2] == src):
                return 'D1', 'index from enumerate() over the same collection'
            if (('len', src), ('len', base)) in le_facts(e.pc) or (base[0] == 'call' and (('len', src), ('len', base[2])) in le_facts(e.pc)):
                return 'D1', 'index from enumerate() over a collection proven not longer'
        if idx == ('sub', ('len', base), ('lit', 1)) and len_lower_bound(e.pc, base) >= 1:
            return 'D1', 'last element of a non-empty collection'
        if (idx, ('len', base)) in lt_facts(e.pc):
            return 'D1', 'explicit bound check'
        return None, 'index %s not bounded by the length of %s' % (show_term(idx)[:50], show_term(base)[:50])

    def boundary_ok(self, pc, base, t, w):
        """is t a valid (<= len, char boundary) offset into string `base`?"""
        if t == ('lit', 0) or t == ('len', base):
            return True
        if t[0] == 'lit' and isinstance(t[1], int):
            return False
        if t[0] == 'ite':
            return all(self.boundary_ok(And(pc, c_), base, l_, w) for c_, l_ in term_cases(t) if sat(And(pc, c_)) is not None)
        # an offset handed out by base.char_indices() (`.nth(k)`, `.next()`, `.find(..)`, loop element): a boundary below len
        x = t
        if x[0] in ('field', 'proj') and str(x[2] if x[0] == 'field' else x[-1]) == '0':
            x = x[1]
            if x[0] == 'some_of':
                x = x[1]
            if x[0] == 'elem':
                x = x[1]
            for _ in range(3):
                if x[0] == 'call' and x[1].split('::')[-1] in ('nth', 'next', 'last', 'find', 'skip', 'peekable', 'rev', 'nth_back') and len(x) >= 3:
                    x = x[2]
            if x[0] == 'call' and x[1].split('::')[-1] == 'char_indices' and x[2] == base:
                return True
        # result of find(base, ascii) : boundary
        if t[0] in ('some_of',) and t[1][0] == 'call' and t[1][1].endswith('::find') and t[1][2] == base:
            return True
        if t[0] == 'add' and t[2][0] == 'lit' and t[2][1] == 1 and self.boundary_ok(pc, base, t[1], w) and \
                t[1][0] == 'some_of' and t[1][1][0] == 'call' and _ascii_pat(t[1][1][3]):
            return True     # just behind a matched one-byte ASCII pattern
        return False

    def d_slice(self, s, w, base, rng, is_str):
        e = s.ev
        lo = rng.get('start', ('lit', 0))
        hi = rng.get('end', ('len', base))
        if not is_str:
            # byte/element slices: bounds only
            les = le_facts(e.pc)
            ln = ('len', base)

            def norm(t):
                # `a.checked_sub(b)?` / `.unwrap()` is a - b (the subtraction did not wrap)
                if isinstance(t, tuple) and t:
                    if t[0] == 'some_of' and isinstance(t[1], tuple) and t[1][:1] == ('call',) and t[1][1].split('::')[-1] == 'checked_sub' \
                            and len(t[1]) == 4:
                        return ('sub', norm(t[1][2]), norm(t[1][3]))
                    return tuple(norm(x) if isinstance(x, tuple) else x for x in t)
                return t
            lo, hi = norm(lo), norm(hi)

            def bounded(x, pc_=None):
                """x <= len(base)"""
                if x[0] == 'ite':
                    # a bound chosen by a condition: every feasible choice is bounded (under its own condition)
                    cs = [(c_, l_) for c_, l_ in term_cases(x) if sat(And(e.pc, c_)) is not None]
                    return bool(cs) and all(bounded(l_, And(e.pc, c_)) for c_, l_ in cs)
                les_ = les if pc_ is None else le_facts(pc_)
                if x == ('lit', 0) or x == ln or (x, ln) in les_:
                    return True
                if enum_index_over(x, base):
                    return True
                # an element of / a find() result over the range lo..=hi is <= hi
                rb = _range_upper(x)
                if rb is not None and (rb == ln or (rb[0] == 'sub' and rb[1] == ln)):
                    return True
                # y + b with y drawn from a range whose upper end is len - b
                if x[0] == 'add':
                    for y, b_ in ((x[1], x[2]), (x[2], x[1])):
                        ry = _range_upper(y)
                        if ry is not None and ry == ('sub', ln, b_):
                            return True
                # x <= len - b   (b unsigned)
                if any(a == x and b[0] == 'sub' and b[1] == ln for (a, b) in les):
                    return True
                # len - b
                if x[0] == 'sub' and x[1] == ln:
                    return True
                # y + b with y <= len - b
                if x[0] == 'add' and any(a == x[1] and b == ('sub', ln, x[2]) for (a, b) in les):
                    return True
                # position()/find() result on the same sequence is < len; so is result + 1 <= len
                if x[0] == 'some_of' and x[1][0] == 'find' and x[1][1] == base:
                    return True
                if x[0] == 'add' and x[2] == ('lit', 1) and x[1][0] == 'some_of' and x[1][1][0] == 'find' and x[1][1][1] == base:
                    return True
                return False
            if bounded(lo) and (hi == ln or bounded(hi)) and (hi == ln or lo == ('lit', 0) or (lo, hi) in les):
                return 'D1', 'slice bounds established'
            ok_lo = lo == ('lit', 0) or (lo, ('len', base)) in le_facts(e.pc) or lo == ('len', base)
            ok_hi = hi == ('len', base) or (hi, ('len', base)) in le_facts(e.pc)
            if hi == ('sub', ('len', base), ('lit', 1)) and len_lower_bound(e.pc, base) >= 1:
                ok_hi = True
            if ok_lo and ok_hi:
                return 'D1', 'slice bounds checked'
            return None, 'slice bounds %s..%s not established' % (show_term(lo)[:30], show_term(hi)[:30])
        if self.boundary_ok(e.pc, base, lo, w) and self.boundary_ok(e.pc, base, hi, w):
            return 'D1', 'offsets are 0 / len / find() results on the same string'
        return None, ('str slice %s[%s..%s]: offsets are not known to be in bounds and on a character boundary of that string'
                      % (show_term(base)[:30], show_term(lo)[:40], show_term(hi)[:40]))

    # ---------------------------------------------------------------- arithmetic
    def d_arith(self, s, w):
        e = s.ev
        op, l, r = s.subject
        if op in ('div', 'rem'):
            if r[0] == 'lit' and r[1] != 0:
                return 'D1', 'non-zero literal divisor'
            if r[0] == 'const':
                return 'D4', 'constant divisor'
            return None, 'divisor may be zero'
        if op in ('shl', 'shr'):
            if r[0] == 'lit' or r[0] == 'mvar' or r[0] == 'param':
                return 'D4', 'shift inside a macro expansion with a branch index < 64'
            return None, 'shift amount unbounded'
        if op in ('add', 'mul'):
            # lengths / indices / counters of in-memory collections cannot overflow usize
            def small(t):
                return t[0] in ('lit', 'len', 'index_of', 'mvar', 'some_of', 'param') or (t[0] in ('add', 'mul') and small(t[1]) and small(t[2])) \
                    or (t[0] == 'field' and root_of(t) in (STATE, P('self'))) or t[0] in ('const', 'call', 'field', 'elem', 'idx')
            if op == 'mul' and l[0] == 'div' and l[2] == r:
                return 'D1', '(x / c) * c <= x'
            if small(l) and small(r):
                return 'D1', 'sum of lengths / indices / per-element counters (bounded by memory)'
            return None, 'addition may overflow'
        if op == 'sub':
            if r[0] == 'mul' and r[1][0] == 'div' and r[1][1] == l and r[1][2] == r[2]:
                return 'D1', 'x - (x / c) * c'
            if (r, l) in le_facts(e.pc):
                return 'D1', 'guarded by %s <= %s' % (show_term(r)[:30], show_term(l)[:30])
            if r[0] == 'lit' and isinstance(r[1], int):
                if l[0] == 'len' and len_lower_bound(e.pc, l[1]) >= r[1]:
                    return 'D1', 'len >= %d' % r[1]
                if (('lit', r[1] - 1), l) in lt_facts(e.pc) or (('lit', r[1]), l) in le_facts(e.pc):
                    return 'D1', 'lower bound checked'
            return None, 'subtraction %s - %s may underflow' % (show_term(l)[:40], show_term(r)[:40])
        return None, 'unclassified arithmetic'

    # ---------------------------------------------------------------- explicit panics / library calls
    def d_panic(self, s, w):
        if s.ev.pc == F or sat(s.ev.pc) is None:
            return 'D1', 'unreachable'
        # the panic is reached only if its path condition holds: prove the negation (possibly at the callers)
        cs = conjuncts(s.ev.pc)
        if len(cs) == 1 and cs[0][0] == '!' and cs[0][1][0] == 'a':
            r = self.prove(s.fn, w, _Dummy(T, s.ev), cs[0][1], 0)
            if r[0]:
                return r
        return None, 'explicit panic reachable'

    def d_libcall(self, s, w):
        t = s.subject
        nm = t[1]
        args = t[2:]
        if nm in ('chunks', 'chunks_exact', 'windows', 'step_by') and len(args) >= 2 and args[1][0] == 'lit' and args[1][1] != 0:
            return 'D1', 'non-zero literal'
        if nm == 'drain' and len(args) >= 2 and args[1][0] == 'adt' and args[1][1].endswith('RangeFull'):
            return 'D1', 'full range'
        if nm in ('chunks',) and len(args) >= 2 and args[1][0] == 'const':
            return 'D4', 'named constant'
        if nm == 'split_at' and len(args) >= 2 and self.boundary_ok(s.ev.pc, args[0], args[1], w):
            return 'D1', 'split position is an in-bounds character boundary of the same string'
        return None, 'library precondition (%s) not established' % s.detail.get('why')


class _Dummy:
    """an event-like object carrying a replacement path condition"""
    def __init__(self, pc, ev):
        self.pc = pc
        self.loops = ev.loops
        self.kind = ev.kind
        self.data = ev.data
        self.seq = ev.seq
        self.node = ev.node
        self.guards = ev.guards


def subst_term(t, mapping):
    if t in mapping:
        return mapping[t]
    if isinstance(t, tuple):
        return tuple(subst_term(x, mapping) for x in t)
    return t


def _set_typed(prog, node):
    if node.get('k') == 'For':
        ty = prog.ty(node['iter'])
    else:
        ty = prog.ty(node['args'][0]) if node.get('args') else ''
    return 'HashSet<' in ty or 'BTreeSet<' in ty or 'hash::set' in ty or 'hash_set' in ty


def _ascii_pat(t):
    return t[0] == 'lit' and isinstance(t[1], str) and len(t[1]) == 1 and ord(t[1]) < 128
