"""C11 — Operator status comes only from OPER and operator commands require it."""
from .common import *  # noqa: F401,F403
from .C03 import cx_census
from .C01 import select_arms


def P(n):
    return ('param', n)


MYUSER = user(CONN_NICK)
OPER = flag(field(MYUSER, 'modes', 'oper'))


def local_oper_atom(cx, modes_term):
    return Atom(('call', cx.fn('is_local_oper'), modes_term))


def check(cx):
    ck = cx.check
    ck.decides += [
        'R11.1 census of every write that can raise oper/local_oper: only OPER under (configured name, password verified, mask matched) for the own user, and User::new copying the configured default modes',
        'R11.7 removing the mode removes the status: for every user-mode letter that has a clearing assignment, MODE -<letter> on the own nick clears the flag whenever it is set, under no further condition',
        'R11.8 (imported) the WALLOPS audience set follows a nick change and is touched by NICK only then (C15 R15.1/R15.2, wallops instances)',
        'R11.9 the table through which OPER finds a configured operator maps every configured name, verbatim, to its entry',
        'R11.2 user MODE is applied only when the target equals the own nick; foreign targets get 502/401; every effect of process_mode_user is keyed by that target',
        'R11.3 KILL/DIE effects are guarded by the oper flag (else 481/483), WALLOPS fan-out and STATS replies by is_local_oper (else 481); KILL names the killer; WALLOPS fans out over exactly the +w set; SQUIT delegates to DIE only for the own server name',
        'R11.4 is_local_oper = local_oper || oper',
        'R11.6 the KILL notice arm formats killer and comment into an ERROR line and sets the quit flag',
    ]
    ck.does_not_decide += ['password strength, Argon2 correctness', 'membership of wallops_users == users with +w (C19 coupling)']
    ck.assume('argon2_verify_password_async(entered, hash) is Ok exactly when `entered` hashes to `hash` (library contract)')
    prog = cx.prog
    census = cx_census(cx)

    # ---------------------------------------------------------------- R11.1
    r1 = cx.rule('R11.1', 'privilege-raising writes', floor=3, kind='census+guard')
    fo = cx.fn('process_oper')
    NAME, PASSWORD = P('name'), P('password')
    wo = cx.walk(fo, args=[SELF, CONN, NAME, PASSWORD], key='c11')
    oidx_map = field(SELF, 'oper_config_idxs')
    named = has(oidx_map, NAME)
    opcfg = ('idx', ('some_of', field(CONFIG, 'operators')), ('idx', oidx_map, NAME))
    verified = Atom(('is', ('call', cx.fn('argon2_verify_password_async'), PASSWORD, field(opcfg, 'password')), 'Ok'))
    mask_some = is_some(field(opcfg, 'mask'))
    mw = Atom(('call', cx.fn('match_wildcard'), ('some_of', field(opcfg, 'mask')), CONN_SOURCE))
    R = And(named, verified, Or(Not(mask_some), mw))
    raising = []
    for fn, e in census:
        if e.kind == 'assign' and not e.data.get('init'):
            p = path_of(e.data['lhs'])
            if p[-2:] in (['modes', 'oper'], ['modes', 'local_oper']) or (p[-1:] in (['oper'], ['local_oper']) and 'modes' in repr(e.data['lhs'])):
                if sym.as_formula(e.data['rhs']) != F:
                    raising.append((fn, e))
    for fn, e in raising:
        base = short_fn(fn.replace('::{closure#0}', ''))
        desc = '%s: %s := %s' % (base, show_term(e.data['lhs']), show_term(e.data['rhs'])[:30])
        r1.instance(desc)
        if base == 'process_oper':
            w = wo
            evs = [x for x in w.events if x.kind == 'assign' and x.node is e.node]
            x = evs[0] if evs else e
            ok, m = entails(x.pc, R)
            if x.data['lhs'] != field(MYUSER, 'modes', 'oper') or not ok:
                r1.violation('process_oper|grant-condition', 'OPER grants operator status without (configured name, verified password, '
                             'matching mask) or to a foreign user: %s' % model_str(m), loc=cx.loc(e.node))
        else:
            letter = [a[2][1] for a in atoms(e.pc) if a[0] == 'eq' and a[2][0] == 'lit' and isinstance(a[2][1], str)
                      and entails(e.pc, Atom(a))[0]]
            gs = ' && '.join(sorted(show(c) for c in conjuncts(e.pc) if not any('chars' in repr(a) or a[0] in ('empty',) for a in atoms(c))))
            r1.violation('%s|raises-%s|%s|under=%s' % (base, path_of(e.data['lhs'])[-1], ''.join(letter), gs),
                         '%s raises operator status outside OPER (no password involved): %s' % (base, desc), loc=cx.loc(e.node))
    r1.instance('OPER grant exists')
    if not any(short_fn(fn.replace('::{closure#0}', '')) == 'process_oper' for fn, e in raising):
        r1.violation('process_oper|no-grant', 'OPER never grants operator status', loc=fo)
    # struct literals of UserModes
    for fn, e in census:
        if e.kind == 'adt' and e.data['adt'].endswith('config::UserModes'):
            r1.instance('UserModes literal in %s' % short_fn(fn))
            for f in ('oper', 'local_oper'):
                v = e.data['fields'].get(f)
                if v is not None and sym.as_formula(v) != F:
                    r1.violation('%s|UserModes-literal' % short_fn(fn), 'a UserModes value is built with %s set' % f, loc=cx.loc(e.node))
    # User::new takes its modes from the configuration only
    wn = cx.walk(cx.fn('new', 'structs::User'), args=[P('config'), P('user_state'), P('sender'), P('quit_sender')])
    r1.instance('User::new modes = config.default_user_modes')
    dflt = field(P('config'), 'default_user_modes')
    srcs = {dflt}
    for e in wn.events:
        if e.kind == 'assign' and e.data.get('init') and e.data['lhs'][0] == 'mvar' and e.data['rhs'] == dflt:
            srcs.add(e.data['lhs'])
    lits = [e for e in wn.events if e.kind == 'adt' and e.data['adt'].endswith('structs::User')]
    ok = len(lits) == 1 and lits[0].data['fields'].get('modes') in srcs
    for e in wn.events:
        if e.kind == 'assign' and not e.data.get('init'):
            l = e.data['lhs']
            if any(mentions(l, x) for x in srcs) and path_of(l)[-1:] != ['registered']:
                ok = False
    if not ok:
        r1.violation('User::new|modes-provenance', 'a new user\'s modes are not exactly the configured default modes (plus registered)',
                     loc=cx.fn('new', 'structs::User'))

    # ---------------------------------------------------------------- R11.2
    r2 = cx.rule('R11.2', 'user MODE only on the own nick', floor=4, kind='required-guard')
    fm = cx.fn('process_mode')
    TGT = P('target')
    wm = cx.walk(fm, args=[SELF, CONN, TGT, P('modes')], key='c08')
    calls = [e for e in wm.events if is_call(e, 'process_mode_user')]
    r2.instance('process_mode_user call sites: %d' % len(calls))
    if len(calls) != 1:
        raise AnchorLost('process_mode -> process_mode_user call not found')
    e = calls[0]
    own = sym.mk_eq(CONN_NICK, TGT)
    ok, m = entails(e.pc, own)
    if not ok or TGT not in e.data['args']:
        r2.violation('process_mode|foreign-user-mode', 'user MODE can be applied to a nick other than the own one', loc=cx.loc(e.node))
    mreps = replies(wm)
    r2.instance('502 for foreign registered targets')
    e502 = [x for x, r in mreps if r['variant'] == 'ErrUsersDontMatch502']
    if not e502 or not all(entails(x.pc, And(Not(own), has(USERS, TGT)))[0] for x in e502):
        r2.violation('process_mode|502', '502 is not the answer to MODE on another registered user', loc=fm)
    fu = cx.fn('process_mode_user')
    wu = cx.walk(fu, args=cx.callsite_args(fm, [SELF, CONN, TGT, P('modes')], 'process_mode_user'), key='c11')
    for e, x in effects(wu, prog):
        p = path_of(x['place'])
        desc = '%s %s' % (x['op'], show_term(x['place']))
        r2.instance(desc)
        keyed = (mentions(x['place'], ('idx', USERS, TGT)) or (p == ['wallops_users'] and x['args'][:1] == [TGT])
                 or p in (['invisible_users_count'], ['operators_count']))
        if not keyed:
            r2.violation('process_mode_user|foreign-effect|%s' % desc, 'user MODE changes state not belonging to the target user: %s' % desc,
                         loc=cx.loc(e.node))

    # ---------------------------------------------------------------- R11.8 imported: WALLOPS set under NICK
    r8 = cx.rule('R11.8', 'WALLOPS audience under nick changes (imported)', floor=1, kind='dependency')
    depends(cx, r8, 'C15', ('R15.1', 'R15.2'), 'the WALLOPS set is re-keyed exactly on accepted nick changes', only=r'wallops-condition\|(stale|spurious-insert)|unguarded\|(remove|insert) \$state\.wallops_users')

    # ---------------------------------------------------------------- R11.9 the configured operator is found under its own name
    r9 = cx.rule('R11.9', 'configured-operator lookup table', floor=1, kind='provenance')
    rule_config_index_tables(cx, r9, which=('oper_config_idxs',))

    # ---------------------------------------------------------------- R11.7 a set flag can always be dropped
    r6 = cx.rule('R11.7', 'MODE -<letter> clears a set flag unconditionally', floor=3, kind='entailment')
    mchar = None
    for e in wu.events:
        for a in atoms(e.pc):
            if a[0] == 'eq' and a[2][0] == 'lit' and isinstance(a[2][1], str) and len(a[2][1]) == 1 and 'chars' in repr(a[1]):
                mchar = a[1]
    sign = [a for e in wu.events for a in atoms(e.pc) if a[0] == 'truth' and a[1][0] == 'mvar']
    if mchar is None or not sign:
        raise AnchorLost('process_mode_user: mode character / sign flag not found')
    sign = sign[0]
    inner = [e for e in wu.events if len(e.loops) >= 2]
    base = [c for c in conjuncts(inner[0].pc) if all(entails(e.pc, c)[0] for e in inner[:40])] if inner else []
    clears = {}
    for e in wu.events:
        if e.kind == 'assign' and not e.data.get('init') and sym.as_formula(e.data['rhs']) == F and \
                mentions(e.data['lhs'], ('idx', USERS, TGT)) and path_of(e.data['lhs'])[-2:-1] == ['modes']:
            for L in 'iwoOr':
                if entails(e.pc, Atom(('eq', mchar, ('lit', L))))[0]:
                    clears.setdefault((L, e.data['lhs']), []).append(e)
    for (L, place), evs in sorted(clears.items(), key=lambda kv: kv[0][0]):
        r6.instance("-%s clears %s whenever it is set" % (L, show_term(place)[-30:]))
        pre = And(*base, Atom(('eq', mchar, ('lit', L))), Not(Atom(sign)), flag(place))
        ok, m = entails(pre, Or(*[e.pc for e in evs]))
        if not ok:
            r6.violation('process_mode_user|cannot-drop|%s|%s' % (L, path_of(place)[-1]), "MODE -%s does not always clear %s: a user can be unable "
                         "to give the status up (%s)" % (L, path_of(place)[-1], model_str(m)), loc=cx.loc(evs[0].node))

    # ---------------------------------------------------------------- R11.3 operator commands
    r3 = cx.rule('R11.3', 'operator commands guarded by operator status', floor=11, kind='required-guard')
    ilo = local_oper_atom(cx, field(MYUSER, 'modes'))
    # KILL
    fk = cx.fn('process_kill')
    NICKN, COMMENT = P('nickname'), P('comment')
    wk = cx.walk(fk, args=[SELF, CONN, NICKN, COMMENT], key='c11')
    keff = effects(wk, prog)
    takes = [(e, x) for e, x in keff if x['op'] == 'take']
    r3.instance('KILL: quit_sender.take on the named user under oper')
    if not takes:
        r3.violation('process_kill|no-effect', 'KILL never disconnects anybody', loc=fk)
    for e, x in keff:
        if x['op'] == 'get_mut':
            continue
        ok, m = entails(e.pc, OPER)
        if not ok:
            r3.violation('process_kill|unprivileged', 'KILL acts for a non-operator', loc=cx.loc(e.node))
        if x['place'] != field(user(NICKN), 'quit_sender'):
            r3.violation('process_kill|wrong-target', 'KILL acts on %s instead of the named user' % show_term(x['place']), loc=cx.loc(e.node))
    ksend = [e for e in wk.events if is_call(e, 'send') and 'oneshot::Sender' in (e.data.get('recv_ty') or '')]
    r3.instance('KILL: payload names the killer and the comment')
    for e in ksend:
        pl = e.data['args'][1]
        if pl != ('tuple', CONN_NICK, COMMENT) or not entails(e.pc, OPER)[0]:
            r3.violation('process_kill|payload', 'the KILL notice does not carry (killer nick, comment)', loc=cx.loc(e.node))
    if not ksend:
        r3.violation('process_kill|no-send', 'KILL does not signal the victim\'s session', loc=fk)
    _refusal(cx, r3, wk, 'ErrNoPrivileges481', Not(OPER), fk, 'process_kill')
    _refusal(cx, r3, wk, 'ErrNoSuchNick401', And(OPER, Not(has(USERS, NICKN))), fk, 'process_kill')
    # DIE
    fd = cx.fn('process_die')
    wd = cx.walk(fd, args=[SELF, CONN, P('message_opt')], key='c11')
    deff = [(e, x) for e, x in effects(wd, prog) if x['op'] not in ('get_mut', 'values_mut')]
    r3.instance('DIE: all effects under oper (%d)' % len(deff))
    if len(deff) < 2:
        r3.violation('process_die|no-effect', 'DIE does not end the sessions and the server', loc=fd)
    places = set()
    for e, x in deff:
        places.add(tuple(path_of(x['place'])[-1:]))
        if not entails(e.pc, OPER)[0]:
            r3.violation('process_die|unprivileged', 'DIE acts for a non-operator', loc=cx.loc(e.node))
    if ('quit_sender',) not in places:
        r3.violation('process_die|no-server-stop', 'DIE does not stop the server', loc=fd)
    _refusal(cx, r3, wd, 'ErrCantKillServer483', Not(OPER), fd, 'process_die')
    # SQUIT
    fs = cx.fn('process_squit')
    ws = cx.walk(fs, args=[SELF, CONN, P('server'), COMMENT], key='c11')
    r3.instance('SQUIT delegates to DIE only for the own server name')
    dcalls = [e for e in ws.events if is_call(e, 'process_die')]
    same = sym.mk_eq(field(CONFIG, 'name'), P('server'))
    if len(dcalls) != 1 or not entails(dcalls[0].pc, same)[0]:
        r3.violation('process_squit|delegation', 'SQUIT does not delegate to DIE exactly for the own server name', loc=fs)
    for e, x in effects(ws, prog):
        r3.violation('process_squit|direct-effect', 'SQUIT changes state directly', loc=cx.loc(e.node))
    # WALLOPS
    fw = cx.fn('process_wallops')
    ww = cx.walk(fw, args=[SELF, CONN, P('msg')], key='c11')
    wsn = sends(ww)
    r3.instance('WALLOPS: fan-out over wallops_users under is_local_oper')
    wset = field(STATE, 'wallops_users')
    if not wsn:
        r3.violation('process_wallops|no-fanout', 'WALLOPS reaches nobody', loc=fw)
    for e, s in wsn:
        if s['to'] != user(('elem', wset)):
            r3.violation('process_wallops|audience', 'WALLOPS is sent to %s instead of the +w set' % show_term(s['to']), loc=cx.loc(e.node))
        if not entails(e.pc, ilo)[0]:
            r3.violation('process_wallops|unprivileged', 'WALLOPS is relayed for a non-operator', loc=cx.loc(e.node))
        if s['payload'] != P('msg') or s['source'] != CONN_SOURCE:
            r3.violation('process_wallops|shape', 'WALLOPS relay is not the original message from the sender', loc=cx.loc(e.node))
        extra = [a for a in atoms(e.pc) if a != ilo[1] and a[0] not in ('is',)]
        if extra:
            r3.violation('process_wallops|filtered', 'WALLOPS fan-out is additionally filtered by %s' % show_term(extra[0]), loc=cx.loc(e.node))
    _refusal(cx, r3, ww, 'ErrNoPrivileges481', Not(ilo), fw, 'process_wallops')
    # STATS
    fst = cx.fn('process_stats')
    wst = cx.walk(fst, args=[SELF, CONN, P('stat'), P('server')], key='c11')
    r3.instance('STATS: statistics replies under is_local_oper')
    for e, r in replies(wst):
        if r['variant'] and r['variant'].startswith('Rpl'):
            if not entails(e.pc, ilo)[0]:
                r3.violation('process_stats|unprivileged|%s' % r['variant'], 'STATS answers %s to a non-operator' % r['variant'], loc=cx.loc(e.node))
    _refusal(cx, r3, wst, 'ErrNoPrivileges481', And(Not(is_some(P('server'))), Not(ilo)), fst, 'process_stats')

    # ---------------------------------------------------------------- R11.4
    r4 = cx.rule('R11.4', 'is_local_oper body', floor=1, kind='equivalence')
    fl = cx.fn('is_local_oper')
    wl = cx.walk(fl, args=[P('self')])
    r4.instance('is_local_oper = local_oper || oper')
    ok, m = equivalent(sym.as_formula(wl.retval), Or(flag(field(P('self'), 'local_oper')), flag(field(P('self'), 'oper'))))
    if not ok:
        r4.violation('UserModes::is_local_oper|body', 'is_local_oper is not (local_oper || oper)', loc=fl)

    # ---------------------------------------------------------------- R11.6 kill notice arm
    r6 = cx.rule('R11.6', 'KILL notice arm', floor=2, kind='wiring')
    pi = cx.fn('process_internal')
    wi = cx.walk(pi)
    arms = select_arms(prog, pi)
    try:
        idx = arms.index('conn_state.quit_receiver')
    except ValueError:
        raise AnchorLost('quit_receiver arm of process_internal not found')
    tag = '_%d' % idx
    in_arm = [e for e in wi.events if any(c[0] == 'a' and c[1][0] == 'is' and c[1][2] == tag for c in conjuncts(e.pc))]
    errs = [(e, r) for e, r in replies(wi) if e in in_arm]
    r6.instance('ERROR line with killer and comment')
    okline = False
    for e, r in errs:
        t = r['text']
        if t[0] == 'fmt' and t[1][0].startswith('ERROR :') and len(t) == 4 and all(tag in repr(x) for x in t[2:]) and t[2] != t[3]:
            okline = True
    if not okline:
        r6.violation('process_internal|kill-notice', 'the killed user is not told who killed it and why', loc=pi)
    r6.instance('quit flag stored')
    st = [e for e in in_arm if is_call(e, 'store') and e.data['args'][0] == ('field', CONN, 'quit') and e.data['args'][1] == ('lit', 1)]
    if not st:
        r6.violation('process_internal|kill-no-quit', 'a KILL notice does not end the session', loc=pi)


def _refusal(cx, r, w, variant, want, fn, key):
    evs = [e for e, x in replies(w) if x['variant'] == variant]
    r.instance('%s: %s exactly when refused' % (key, variant))
    if not evs:
        r.violation('%s|missing-%s' % (key, variant), 'no %s reply' % variant, loc=fn)
        return
    ok, m = equivalent(Or(*[e.pc for e in evs]), want)
    if not ok:
        r.violation('%s|cond-%s' % (key, variant), '%s is not emitted exactly when the command is refused: %s' % (variant, m), loc=cx.loc(evs[0].node))
