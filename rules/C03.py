"""C03 — Nothing works before registration; registration needs the right password.

Decided statically: the command gate (which Command variants reach their handler without
`authenticated`), the exhaustive dispatch, the census of assignments to `authenticated` and
the condition each assigned value implies (CAP ended, NICK, USER, mask, password with the
user-specific password taking precedence over the server password), the failure path
(464 + quit, no user), CAP suspend/resume wiring, and that the six pre-registration
handlers have no effect on shared state other than the guarded registration itself.
"""
from analysis.formula import rename, subst
from .common import *  # noqa: F401,F403

EXEMPT = {'CAP', 'AUTHENTICATE', 'PASS', 'NICK', 'USER', 'QUIT'}
CAPS = ('flag', ('field', CONN, 'caps_negotation'))
NAME_OPT = ('field', USTATE, 'name')
PWD_OPT = ('field', USTATE, 'password')


def cases(t, cond=T):
    """flatten an ite-term into [(condition, leaf)]"""
    if isinstance(t, tuple) and t and t[0] == 'ite':
        return cases(t[2], And(cond, t[1])) + cases(t[3], And(cond, Not(t[1])))
    return [(cond, t)]


def find_atoms(f, pred):
    return [a for a in atoms(f) if pred(a)]


def check(cx):
    ck = cx.check
    ck.decides += [
        'R3.1 command gate: only CAP/AUTHENTICATE/PASS/NICK/USER/QUIT reach their handler while unauthenticated; others get 451 and return',
        'R3.2 dispatch has exactly one handler call per Command variant',
        'R3.3 census of assignments to `authenticated`; each assigned value implies CAP ended, NICK+USER given, mask matched, required password verified (user password before server password)',
        'R3.4 wrong/missing password: 464, quit flag stored, no user created',
        'R3.5 a registration attempt that ends without a user (nick taken meanwhile) does not leave the connection marked as registered (shared rule C02 R2.3)',
        'R3.8 the table through which a configured user (its password and mask) is found maps every configured name, verbatim, to its entry',
        'R3.6 CAP LS/REQ suspend, END resumes; PASS/NICK/USER re-enter authenticate only while unauthenticated',
        'R3.7 pre-registration handlers have no shared-state effect or cross-user send except the guarded add_user',
    ]
    ck.does_not_decide += ['Argon2 itself (trusted library)', 'TLS/DNS effects on the source string']
    ck.assume('argon2_verify_password_async(entered, hash) is Ok exactly when `entered` hashes to `hash` (library contract)')
    prog = cx.prog
    pi = cx.fn('process_internal')
    w = cx.walk(pi)
    variants = [v['name'] for v in prog.adts['command::Command']['variants']]
    auth = Atom(CONN_AUTH)

    # ---------------------------------------------------------------- R3.1 / R3.2
    r1 = cx.rule('R3.1', 'command gate entailment per Command variant', floor=41, kind='required-guard')
    r2 = cx.rule('R3.2', 'exhaustive dispatch, one handler per variant', floor=41, kind='census')
    dispatch = {}
    for e in w.events:
        if e.kind == 'call' and e.data.get('local') and e.data['name'].startswith('process_'):
            vs = [a[2] for c in conjuncts(e.pc) if c[0] == 'a' for a in [c[1]]
                  if a[0] == 'is' and a[2] in variants and 'Command' not in str(a[2])]
            cmd_terms = [c[1][1] for c in conjuncts(e.pc) if c[0] == 'a' and c[1][0] == 'is' and c[1][2] in variants]
            for v in vs:
                dispatch.setdefault(v, []).append(e)
    for v in variants:
        hs = dispatch.get(v, [])
        r2.instance('variant %s -> %s' % (v, ','.join(h.data['name'] for h in hs) or 'NONE'))
        if len(hs) != 1:
            r2.violation('process_internal|dispatch|' + v, 'Command::%s has %d handler calls in the dispatch' % (v, len(hs)), loc=pi)
            continue
        e = hs[0]
        # exclusivity of variants is a background axiom
        cmdt = [c[1][1] for c in conjuncts(e.pc) if c[0] == 'a' and c[1][0] == 'is' and c[1][2] == v][0]
        ax = And(*[Not(And(Atom(('is', cmdt, v)), Atom(('is', cmdt, o)))) for o in variants if o != v])
        need_auth, m = entails(e.pc, auth, ax)
        r1.instance('%s: handler reachable unauthenticated = %s' % (v, not need_auth))
        if v in EXEMPT and need_auth:
            r1.violation('process_internal|gate|' + v, '%s is refused before registration although the property lists it as '
                         'allowed' % v, loc=cx.loc(e.node))
        if v not in EXEMPT and not need_auth:
            r1.violation('process_internal|gate|' + v, '%s reaches its handler on an unregistered connection' % v,
                         loc=cx.loc(e.node), countermodel=model_str(m))
    # the refusal: 451 then return, before any handler
    r451 = [(e, r) for e, r in replies(w) if r['variant'] == 'ErrNotRegistered451']
    r1.instance('451 refusal present and followed by return')
    if not r451:
        r1.violation('process_internal|gate|no-451', 'no ERR_NOTREGISTERED reply in the gate', loc=pi)
    for e, r in r451:
        ok, _ = entails(e.pc, Not(auth))
        rets = [x for x in w.events if x.kind == 'return' and x.seq > e.seq and entails(e.pc, x.pc)[0] and entails(x.pc, e.pc)[0]]
        if not ok or not rets:
            r1.violation('process_internal|gate|451-shape', '451 is not (unauthenticated => reply; return)', loc=cx.loc(e.node))

    # ---------------------------------------------------------------- R3.3 authenticated census
    r3 = cx.rule('R3.3', 'assignments to `authenticated` and the condition they imply', floor=2, kind='census+guard')
    af = cx.fn('authenticate')
    wa = cx.walk(af)
    AUTH_PLACE = ('field', USTATE, 'authenticated')
    census = cx_census(cx)
    writers = [(fn, e) for fn, e in census if e.kind == 'assign' and not e.data.get('init')
               and path_of(e.data['lhs'])[-1:] == ['authenticated']]
    struct_inits = [(fn, e) for fn, e in census if e.kind == 'adt' and e.data['adt'].endswith('ConnUserState')]
    for fn, e in struct_inits:
        v = e.data['fields'].get('authenticated')
        r3.instance('ConnUserState literal in %s: authenticated = %s' % (short_fn(fn), show_term(v)))
        if v != sym.mk_bool(F):
            r3.violation('%s|ConnUserState-literal' % short_fn(fn), 'a connection state is constructed with '
                         'authenticated != false', loc=cx.loc(e.node))
    for fn, e in writers:
        if fn != af and not fn.startswith(af):
            r3.violation('%s|writes-authenticated' % short_fn(fn), '`authenticated` is assigned outside authenticate()',
                         loc=cx.loc(e.node))
    # required condition, built from the atoms authenticate() itself uses (classified by shape)
    asg = [e for e in wa.events if e.kind == 'assign' and not e.data.get('init') and e.data['lhs'] == AUTH_PLACE]
    if not asg:
        r3.violation('authenticate|no-assignment', 'authenticate() never sets `authenticated`', loc=af)
    all_atoms = []
    for e in wa.events:
        for a in atoms(e.pc):
            if a not in all_atoms:
                all_atoms.append(a)
    nick = is_some(NICK_OPT)
    name = is_some(NAME_OPT)
    ucfg = None
    for a in all_atoms:
        if a[0] == 'is' and a[1][0] == 'get' and a[1][1] == ('field', SELF, 'user_config_idxs') and a[1][2] == ('some_of', NAME_OPT):
            ucfg = a
    if ucfg is None:
        raise AnchorLost('authenticate: lookup of the configured user by name not found')
    uidx = ('idx', ucfg[1][1], ucfg[1][2])
    users_some = ('is', ('field', CONFIG, 'users'), 'Some')
    ucfg_entry = ('index', ('some_of', ('field', CONFIG, 'users')), uidx)
    mask_some = ('is', ('field', ucfg_entry, 'mask'), 'Some')
    mw = ('call', cx.fn('match_wildcard'), ('some_of', ('field', ucfg_entry, 'mask')), CONN_SOURCE)
    upw_some = ('is', ('field', ucfg_entry, 'password'), 'Some')
    spw_some = ('is', ('field', CONFIG, 'password'), 'Some')
    entered = ('is', PWD_OPT, 'Some')
    has_cfg_user = And(Atom(ucfg), Atom(users_some))
    cfgpw = And(has_cfg_user, Atom(upw_some))
    mask_ok = Or(Not(And(has_cfg_user, Atom(mask_some))), Atom(mw))
    for e in asg:
        for a in atoms(sym.as_formula(e.data['rhs'])):
            if a not in all_atoms:
                all_atoms.append(a)
    verify = [a for a in all_atoms
              if a[0] == 'is' and a[2] == 'Ok' and a[1][0] == 'call' and a[1][1].endswith('argon2_verify_password_async')]
    r3.instance('password verification atom located (%d)' % len(verify))
    if len(verify) != 1:
        r3.violation('authenticate|verify-call', 'expected exactly one argon2 verification feeding `authenticated`, found %d'
                     % len(verify), loc=af)
        return
    vatom = verify[0]
    ent, req = vatom[1][2], vatom[1][3]
    if ent != ('some_of', PWD_OPT):
        r3.violation('authenticate|verify-entered', 'the verified password is not the one supplied with PASS', loc=af)
    # which stored hash is checked under which condition
    r3.instance('required hash = configured user password, else server password')
    # the conditions inside the argument term are relative to the place of the verification call
    vev = [e for e in wa.events if e.kind in ('call', 'await') and 'argon2_verify_password_async' in str(e.data.get('callee') or e.data.get('name') or '')]
    vctx = vev[0].pc if vev else T
    for c, leaf in cases(req):
        c = And(c, vctx)
        if sat(And(c, Or(cfgpw, Atom(spw_some)))) is None:
            continue
        want_user = leaf == ('some_of', ('field', ucfg_entry, 'password'))
        want_srv = leaf == ('some_of', ('field', CONFIG, 'password'))
        ok1 = want_user and entails(c, cfgpw)[0]
        ok2 = want_srv and entails(c, Not(cfgpw))[0]
        if leaf == ('some_of', ('none',)):
            # unreachable leaf of an Option chain: must contradict "a password is required"
            if sat(And(c, Or(cfgpw, And(Not(cfgpw), Atom(spw_some))), _sel(req, leaf))) is None:
                continue
        if not (ok1 or ok2):
            if leaf == ('some_of', ('none',)):
                continue
            r3.violation('authenticate|required-hash', 'the hash verified against is %s under %s (expected: the configured '
                         'user\'s password when it exists, otherwise the server password)' % (show_term(leaf), show(c)), loc=af)
    pw_ok = Or(Not(Or(cfgpw, Atom(spw_some))), And(Atom(entered), Atom(vatom)))
    R = And(Not(Atom(CAPS)), nick, name, mask_ok, pw_ok)
    for e in asg:
        val = sym.as_formula(e.data['rhs'])
        r3.instance('authenticated := %s' % show(val)[:80])
        ok, m = entails(And(e.pc, val), R)
        if not ok:
            r3.violation('authenticate|auth-value-unjustified', 'authenticated can become true without (CAP ended, NICK, USER, '
                         'mask match, required password verified): %s' % model_str(m), loc=cx.loc(e.node))

    # ---------------------------------------------------------------- R3.8 the configured user is found under its own name
    # the secret that is compared is the PASS parameter as sent (tokeniser and parser hand it over unaltered)
    r39 = cx.rule('R3.9', 'the password checked is the password sent (imported)', floor=1, kind='dependency')
    depends(cx, r39, 'C13', ('R13.13', 'R13.14'), 'the PASS parameter reaches the handler as sent', only=r'trims-end|line-altered|\|PASS\.')
    depends(cx, r39, 'C20', ('R20.11',), 'the stored and the verified password are the PASS parameter itself')

    r38 = cx.rule('R3.8', 'configured-user lookup table', floor=1, kind='provenance')
    rule_config_index_tables(cx, r38, which=('user_config_idxs',))

    # ---------------------------------------------------------------- R3.5 registered flag <=> user exists
    from .C02 import rule_auth_implies_registered
    r35 = cx.rule('R3.5', 'authenticated => a user was registered for this connection', floor=2, kind='typestate')
    rule_auth_implies_registered(cx, r35)

    # ---------------------------------------------------------------- R3.4 failure path, user creation
    r4 = cx.rule('R3.4', 'user creation only under the completion condition; failure closes', floor=3, kind='required-guard')
    adds = [e for e in wa.events if is_call(e, 'add_user') and e.data.get('local')]
    r4.instance('add_user sites: %d' % len(adds))
    if not adds:
        r4.violation('authenticate|no-add_user', 'authenticate() never registers the user', loc=af)
    for e in adds:
        ok, m = entails(e.pc, R)
        if not ok:
            r4.violation('authenticate|add_user-unjustified', 'a user can be created without the completion condition: %s'
                         % model_str(m), loc=cx.loc(e.node))
    wrong = And(Not(Atom(CAPS)), nick, name, mask_ok, Or(cfgpw, Atom(spw_some)), Not(And(Atom(entered), Atom(vatom))))
    r464 = [e for e, r in replies(wa) if r['variant'] == 'ErrPasswdMismatch464']
    stores = [e for e in wa.events if is_call(e, 'store') and e.data['args'][0] == ('field', CONN, 'quit')
              and e.data['args'][1] == ('lit', 1)]
    r4.instance('wrong/missing password => 464')
    r4.instance('wrong/missing password => quit flag stored')
    for nm, evs in (('464 reply', r464), ('quit.store(1)', stores)):
        ok, m = entails(wrong, Or(*[e.pc for e in evs])) if evs else (False, None)
        if not ok:
            r4.violation('authenticate|failure-' + nm.split()[0], 'with a wrong or missing required password no %s is reached (%s)'
                         % (nm, model_str(m)), loc=af)

    # ---------------------------------------------------------------- R3.6 CAP wiring and re-entry
    r6 = cx.rule('R3.6', 'CAP suspend/resume and authenticate() callers', floor=6, kind='wiring')
    wc = cx.walk(cx.fn('process_cap'), args=[SELF, CONN, ('param', 'subcommand'), ('param', 'caps'), ('param', 'version')])
    capw = {}
    capcond = {}
    for e in wc.events:
        if e.kind == 'assign' and e.data['lhs'] == ('field', CONN, 'caps_negotation'):
            for c in conjuncts(e.pc):
                if c[0] == 'a' and c[1][0] == 'is' and c[1][1] == ('param', 'subcommand'):
                    capw.setdefault(c[1][2], []).append(sym.as_formula(e.data['rhs']))
                    # the flag must change whenever the subcommand is given: nothing but the subcommand itself in the condition
                    rest = [a for a in atoms(e.pc) if not (a[0] == 'is' and a[1] == ('param', 'subcommand'))]
                    if rest:
                        capcond[c[1][2]] = rest
    for sub, rest in sorted(capcond.items()):
        r6.violation('process_cap|%s|conditional' % sub, 'CAP %s changes the negotiation flag only under a further condition (%s): a request '
                     'that is answered otherwise does not suspend / resume registration' % (sub, ', '.join(show_term(a)[:40] for a in rest[:2])),
                     loc=cx.fn('process_cap'))
    for sub, want in (('LS', T), ('REQ', T), ('END', F)):
        r6.instance('CAP %s sets caps_negotation=%s' % (sub, want == T))
        if capw.get(sub) != [want]:
            r6.violation('process_cap|' + sub, 'CAP %s does not set the negotiation flag to %s' % (sub, want == T), loc=cx.fn('process_cap'))
    for sub in capw:
        if sub not in ('LS', 'REQ', 'END'):
            r6.violation('process_cap|extra-' + sub, 'CAP %s changes the negotiation flag' % sub, loc=cx.fn('process_cap'))
    callers = [(fn, e) for fn, e in census if is_call(e, 'authenticate') and e.data.get('local')]
    want_callers = {'process_cap', 'process_pass', 'process_nick', 'process_user'}
    seen = set()
    for fn, e in callers:
        base = short_fn(fn.replace('::{closure#0}', ''))
        seen.add(base)
        r6.instance('authenticate() called from %s' % base)
        ok, _ = entails(e.pc, Not(auth))
        if not ok:
            r6.violation('%s|authenticate-reentry' % base, 'authenticate() can be re-entered on an already registered connection',
                         loc=cx.loc(e.node))
    for c in want_callers - seen:
        r6.violation('%s|no-authenticate' % c, '%s does not attempt to complete registration' % c, loc=c)

    # ---------------------------------------------------------------- R3.7 inert before registration
    r7 = cx.rule('R3.7', 'pre-registration handlers: no shared-state effect / cross-user send except guarded add_user',
                 floor=6, kind='required-guard')
    for h in ('process_cap', 'process_authenticate', 'process_pass', 'process_nick', 'process_user', 'process_quit'):
        wh = cx.walk(cx.fn(h), inline=('authenticate',), key='c03')
        r7.instance('%s: %d events' % (h, len(wh.events)))
        for e, x in effects(wh, prog):
            if sat(And(e.pc, Not(auth))) is None:
                continue
            if x['op'] == 'add_user' and x['args'][:1] == [CONN_NICK]:
                continue
            r7.violation('%s|pre-registration-effect|%s' % (h, x['op']), 'an unregistered connection can change shared state: %s %s'
                         % (x['op'], show_term(x['place'])), loc=cx.loc(e.node))
        for e, s in sends(wh):
            if sat(And(e.pc, Not(auth))) is None:
                continue
            r7.violation('%s|pre-registration-send' % h, 'an unregistered connection can send to another user', loc=cx.loc(e.node))


def _sel(req, leaf):
    return T


_CENSUS = {}


CALLER_COORDS = {
    'process_mode_user': ('process_mode', [('param', 'self'), ('param', 'conn_state'), ('param', 'target'), ('param', 'modes')]),
}


def cx_census(cx, prog=None):
    """crate-wide event census: every fn body walked once (closures inlined where modelled)"""
    prog = prog or cx.prog
    if id(prog) in _CENSUS:
        return _CENSUS[id(prog)]
    out = []
    for d, w in census_walks(cx, prog):
        for e in w.events:
            out.append((d, e))
    _CENSUS[id(prog)] = out
    return out


_WALKS = {}


def census_walks(cx, prog=None):
    """[(def path, walker)] for every non-derived fn, plus every closure / async block that no walk inlined
       (futures handed to tokio::spawn, callbacks of unmodelled callees): those are roots of their own"""
    prog = prog or cx.prog
    if id(prog) in _WALKS:
        return _WALKS[id(prog)]
    res = []
    applied = set()
    inlined = set()
    from analysis.sym import _known_fns
    known = _known_fns()
    later = []
    for d, b in prog.bodies.items():
        if b['kind'] not in ('Fn', 'AssocFn') or 'body' not in b or prog.is_derived(b):
            continue
        if known and d not in known and '::test::' not in d:
            later.append(d)          # a function the rules do not know (an extracted helper): seen through its callers
            continue
        w = None
        if d.split('::')[-1] in CALLER_COORDS and '::test::' not in d:
            # helpers whose body the rules read in their caller's coordinates (see Cx.callsite_args)
            caller_name, caller_args = CALLER_COORDS[d.split('::')[-1]]
            try:
                cargs = cx.callsite_args(cx.fn(caller_name, prog=prog), caller_args, d.split('::')[-1], prog=prog)
                w = cx.walk(d, prog=prog, key='census', args=cargs)
            except Exception:
                w = None
        if w is None:
            w = cx.walk(d, prog=prog, key='census')
        applied |= w.applied
        inlined |= getattr(w, 'inlined_fns', set())
        res.append((d, w))
    for d in later:
        if d in inlined:
            continue                 # its events are already attributed to the functions that call it
        w = cx.walk(d, prog=prog, key='census')
        applied |= w.applied
        res.append((d, w))
    changed = True
    done = set()
    while changed:
        changed = False
        for d, b in prog.bodies.items():
            if b['kind'] != 'Closure' or 'body' not in b or d in applied or d in done:
                continue
            top = d.split('::{closure')[0]
            tb = prog.bodies.get(top)
            if tb is None or prog.is_derived(tb):
                continue
            # the coroutine body of an async fn is walked through its shell
            if d == top + '::{closure#0}' and ir.is_async_shell(tb):
                continue
            parent = d.rsplit('::{closure', 1)[0]
            if parent != top and parent not in applied and parent not in done and not (
                    parent == top + '::{closure#0}' and ir.is_async_shell(tb)):
                continue    # wait until the enclosing closure was visited
            w = cx.walk(d, prog=prog, key='census')
            applied |= w.applied
            done.add(d)
            res.append((d, w))
            changed = True
    _WALKS[id(prog)] = res
    return res
