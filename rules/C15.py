"""C15 — A nick change moves the whole identity and nothing else."""
from .common import *  # noqa: F401,F403
from .common import _recv_mut
from .structs import P, ME, container_census, live_nick_containers, RANK_SETS

NEW = P('nick')
MSG = P('msg')


def check(cx):
    ck = cx.check
    ck.decides += [
        'R15.1 every effect of the registered branch is guarded by (new != old && new not in the registry) under one write guard; a taken nick gets 433 and reaches no effect',
        'R15.2 re-key census: for every nick-keyed live container of the state (from the struct definitions) the branch contains a re-key old->new: the registry (the same User value: modes, away, invitations, channel set move with it), every channel of the user (member entry + five rank sets), the WALLOPS set; plus WHOWAS record, connection nick and the user\'s source string',
        'R15.3 the original NICK message is sent, attributed to the old source captured before the rename, to a superset of the channel neighbours (all registered users, the user itself included)',
        'R15.4 counters are untouched by a nick change',
        "R15.5 (imported) the Channel/ChannelModes re-key helpers move every rank entry (C04 R4.3/R4.4) and the connection's nick and source string follow (C02 R2.5, C01 R1.8)",
    ]
    ck.does_not_decide += ['syntactic validity beyond the validator the parser applies to NICK (C13 R13.4)', 'WHOWAS ordering']
    prog = cx.prog
    fn = cx.fn('process_nick')
    w = cx.walk(fn, args=[SELF, CONN, NEW, MSG], inline=('rename_user',), key='c15')
    auth = Atom(CONN_AUTH)
    differs = Not(sym.mk_eq(NEW, CONN_NICK))
    free = Not(has(USERS, NEW))
    G = And(auth, differs, free)
    effs = [(e, x) for e, x in effects(w, prog) if x['op'] not in ('get_mut', 'take')]
    # equal strings are equal ignoring case (a guard written with eq_ignore_ascii_case is weaker than `!=`, not unrelated to it)
    AX = T
    for e in w.events:
        for a in atoms(e.pc):
            if a[0] in ('call', 'truth') and 'eq_ignore_ascii_case' in repr(a):
                c_ = a if a[0] == 'call' else a[1]
                if isinstance(c_, tuple) and c_[:1] == ('call',) and len(c_) == 4:
                    AX = And(AX, Or(Not(sym.mk_eq(c_[2], c_[3])), Atom(a)))

    r1 = cx.rule('R15.1', 'effects guarded by "new nick is free"', floor=8, kind='required-guard')
    for e, x in effs:
        if sat(And(e.pc, auth)) is None:
            continue
        desc = '%s %s' % (x['op'], show_term(x['place'])[:60])
        r1.instance(desc)
        ok, m = entails(e.pc, G, AX)
        wg = [g for g in e.guards if g[0] == 'write']
        if not ok or not wg:
            r1.violation('process_nick|unguarded|%s' % desc, 'a nick change effect (%s) can happen although the new nick is taken / equals '
                         'the old one (or outside the write guard): %s' % (desc, model_str(m)), loc=cx.loc(e.node))
    reps = replies(w)
    r1.instance('433 when the nick is taken')
    e433 = [e for e, r in reps if r['variant'] == 'ErrNicknameInUse433' and sat(And(e.pc, auth)) is not None]
    if not e433 or not equivalent(Or(*[e.pc for e in e433]), And(auth, differs, Not(free)))[0]:
        r1.violation('process_nick|433', 'a registered user asking for a taken nick is not answered with 433 exactly then', loc=fn)

    # ---------------------------------------------------------------- R15.2
    r2 = cx.rule('R15.2', 're-key census', floor=12, kind='census')
    found = container_census(cx, r2)
    removed = None
    for e, x in effs:
        if x['op'] == 'remove' and x['place'] == USERS and x['args'][:1] == [CONN_NICK]:
            removed = ('some_of', ('call', e.data['callee'], USERS, CONN_NICK))
    r2.instance('registry: remove(old) + insert(new, the same User value)')
    ins = [(e, x) for e, x in effs if x['op'] == 'insert' and x['place'] == USERS]
    # GR: the condition under which the handler moves the registry entry.  That it is exactly "registered, different, free" is this
    # property's own business (R15.1 accept-condition); that everything else moves *together with it* is what the re-key census says
    # and what other properties import.
    GR = ins[0][0].pc if len(ins) == 1 else G
    rm_ = [e for e, x in effs if x['op'] == 'remove' and x['place'] == USERS and x['args'][:1] == [CONN_NICK]]
    if removed is None or len(ins) != 1 or ins[0][1]['args'] != [NEW, removed] or not entails(GR, Or(*[e.pc for e in rm_]))[0]:
        r2.violation('process_nick|rekey|VolatileState.users', 'the registry entry is not moved as a whole (remove old, insert the removed value '
                     'under the new nick)', loc=fn)
        removed = removed or ('?',)
    r1.instance('the registry entry is moved exactly for an accepted change')
    if not equivalent(GR, G)[0]:
        r1.violation('process_nick|accept-condition', 'the handler does not carry out exactly the nick changes of registered users to a '
                     'different, free nick (condition %s)' % show(GR)[:120], loc=fn)
    own_chans = ('elem', field(removed, 'channels'))
    CH = chan(own_chans)
    rekeyed = {}
    for e, x in effs:
        names = [n for n in path_of(x['place']) if n != '[]']
        if not names:
            continue
        if x['op'] == 'remove' and x['args'][:1] == [CONN_NICK]:
            rekeyed.setdefault(names[-1], set()).add('remove')
        if x['op'] == 'insert' and x['args'][:1] == [NEW]:
            rekeyed.setdefault(names[-1], set()).add('insert')
    # rank sets live behind ChannelModes::rename_user (sibling-checked in C04 R4.4): the call must be there for every own channel
    mren = [(e, x) for e, x in effs if x['op'] == 'rename_user' and x['place'] == field(CH, 'modes') and x['args'] == [CONN_NICK, NEW]]
    for (sp, fname) in live_nick_containers(found):
        short = sp.split('::')[-1]
        r2.instance('re-key of %s.%s' % (short, fname))
        if short == 'ChannelModes':
            if len(mren) != 1 or not equivalent(mren[0][0].pc, GR)[0]:
                r2.violation('process_nick|rekey|%s.%s' % (short, fname), 'rank set %s is not re-keyed in every channel of the user' % fname, loc=fn)
            continue
        if rekeyed.get(fname) != {'remove', 'insert'}:
            r2.violation('process_nick|rekey|%s.%s' % (short, fname), 'a nick change does not move the entry of %s.%s from the old to the new '
                         'nick' % (short, fname), loc=fn)
    # channel member entries are re-keyed in *every* own channel
    cm = [(e, x) for e, x in effs if x['op'] == 'insert' and x['place'] == field(CH, 'users') and x['args'][:1] == [NEW]]
    r2.instance('member entry moved in every own channel with its rank record')
    okc = len(cm) == 1 and 'remove' in repr(cm[0][1]['args'][1]) and equivalent(cm[0][0].pc, GR)[0]
    if not okc:
        r2.violation('process_nick|rekey|member-entries', 'member entries are not moved (with their rank record) in every channel of the user', loc=fn)
    # WALLOPS set: iff present
    wr = [(e, x) for e, x in effs if path_of(x['place']) == ['wallops_users']]
    r2.instance('WALLOPS membership moves iff present')
    wh = has(field(STATE, 'wallops_users'), CONN_NICK)
    def _wnorm(f):
        # `set.remove(old)` returning true says the same as "old was in the set"; removing an absent entry changes nothing
        def fn_(a):
            if a[0] == 'call' and a[1].split('::')[-1] == 'remove' and a[2:] == (field(STATE, 'wallops_users'), CONN_NICK):
                return wh
            return Atom(a)
        return rename(f, fn_)
    okw = len(wr) == 2
    for e, x in wr:
        f = _wnorm(e.pc)
        if x['op'] == 'remove':
            okw = okw and (equivalent(f, And(GR, wh))[0] or equivalent(f, GR)[0])
        else:
            okw = okw and equivalent(f, And(GR, wh))[0]
    if not okw:
        # which way it is wrong matters to the properties that import this rule: an entry left behind under the old nick (or
        # inserted for a refused change) names a nick that is not registered; an entry dropped too often does not
        rm = [e for e, x in wr if x['op'] == 'remove']
        ins_ = [e for e, x in wr if x['op'] == 'insert']
        kind_ = 'other'
        if not rm or not entails(And(GR, wh), Or(*[_wnorm(e.pc) for e in rm]))[0]:
            kind_ = 'stale'
        elif ins_ and not all(entails(_wnorm(e.pc), GR)[0] for e in ins_):
            kind_ = 'spurious-insert'
        r2.violation('process_nick|rekey|wallops-condition|' + kind_, 'WALLOPS membership is not moved exactly when the old nick was in the set',
                     loc=fn)
    hist = [(e, x) for e, x in effs if x['op'] == 'insert_to_nick_history']
    r2.instance('WHOWAS record under the old nick')
    if len(hist) != 1 or hist[0][1]['args'][0] != CONN_NICK or 'history_entry' not in repr(hist[0][1]['args'][1]) \
            or not equivalent(hist[0][0].pc, GR)[0]:
        r2.violation('process_nick|whowas', 'the old nick is not recorded for WHOWAS with the user\'s history entry', loc=fn)
    # ... and the helper keeps it: it appends the entry to the list of that nick and removes nothing
    fh = cx.fn('insert_to_nick_history')
    wh_ = cx.walk(fh, args=[P('self'), P('old_nick'), P('nhe')], key='c15')
    r2.instance('insert_to_nick_history appends the entry under the nick')
    happ = [e for e in wh_.events if e.kind == 'call' and e.data['name'] in ('push', 'push_back', 'insert') and e.data['args'][-1:] == [P('nhe')]
            or (e.kind == 'call' and e.data['name'] in ('insert',) and mentions(e.data['args'][-1], P('nhe')))]
    drops = [e for e in wh_.events if e.kind == 'call' and not e.data.get('local') and _recv_mut(e, prog) and
             e.data['name'] in ('truncate', 'pop', 'remove', 'drain', 'clear', 'retain', 'swap_remove', 'split_off', 'dedup', 'resize', 'take')]
    if not happ or not entails(T, Or(*[e.pc for e in happ]))[0] and not all(e.pc == T for e in happ[-1:]):
        r2.violation('insert_to_nick_history|append', 'the history entry is not always appended under the old nick', loc=fh)
    for e in drops:
        r2.violation('insert_to_nick_history|drops|%s' % e.data['name'], 'the WHOWAS history of a nick is shortened (%s) when an entry is added: a '
                     'record of a nick change can be lost' % e.data['name'], loc=cx.loc(e.node))
    setn = [e for e in w.events if is_call(e, 'set_nick') and e.data['args'][0] == USTATE and e.data['args'][1] == NEW
            and sat(And(e.pc, auth)) is not None]
    upd = [e for e in w.events if is_call(e, 'update_nick') and e.data['args'][0] == removed and e.data['args'][1] == USTATE]
    r2.instance('connection nick and user source string updated')
    if len(setn) != 1 or len(upd) != 1 or not equivalent(setn[0].pc, GR)[0] or upd[0].seq < setn[0].seq:
        r2.violation('process_nick|identity-strings', 'the connection\'s nick / the user\'s source string are not updated (set_nick then '
                     'update_nick on the moved user)', loc=fn)

    # the moved User value is not altered on the way (modes, away, invitations, channel set travel unchanged)
    r2.instance('the moved User value is only given its new source string')
    rroot = removed[1] if removed and removed[0] == 'some_of' else None
    for e in w.events:
        tgt = None
        if e.kind in ('assign', 'assignop') and not e.data.get('init'):
            tgt = e.data['lhs']
        elif e.kind == 'call' and e.data.get('args'):
            a0 = e.data['args'][0]
            if e.data['name'] in MUTATORS or (e.data.get('local') and local_mut_self(prog, e.data['callee'])):
                tgt = a0
        if tgt is not None and rroot is not None and root_of(tgt) == rroot:
            if e.kind == 'call' and e.data['name'] == 'update_nick':
                continue
            r2.violation('process_nick|moved-user-altered|%s' % show_term(tgt)[-40:], 'the user record is changed while it is moved to the new '
                         'nick: %s' % show_term(tgt), loc=cx.loc(e.node))

    # ---------------------------------------------------------------- R15.5 imported
    r5 = cx.rule('R15.5', 're-key helpers and identity strings (imported)', floor=3, kind='dependency')
    depends(cx, r5, 'C04', ('R4.3', 'R4.4'), 'Channel::rename_user / ChannelModes::rename_user move the member entry and every rank entry',
            only=r'rename')
    depends(cx, r5, 'C02', ('R2.5',), 'set_nick stores the new nick verbatim')
    depends(cx, r5, 'C13', ('R13.14',), 'the nick applied is the nick named in the relayed NICK message', only=r'\|NICK\.')
    depends(cx, r5, 'C01', ('R1.8',), 'the source string is recomputed from the new nick',
            only=r'set_nick|update_source|update_nick|writes-user-source|writes-identity\|(nick|source)')

    # ---------------------------------------------------------------- R15.3
    r3 = cx.rule('R15.3', 'announcement', floor=2, kind='emission')
    snd = [(e, s) for e, s in sends(w) if sat(And(e.pc, auth)) is not None]
    r3.instance('NICK sent to all registered users')
    allk = ('elem', ('keys', USERS))
    good = [(e, s) for e, s in snd if s['to'] == user(allk) and s['payload'] == MSG]
    if len(good) != 1 or len(snd) != 1:
        r3.violation('process_nick|announcement', 'the nick change is not announced (original message) to all registered users', loc=fn)
    else:
        e, s = good[0]
        f = subst(e.pc, ('is', ('get', USERS, allk), 'Some'), True)
        if not equivalent(f, GR)[0]:
            r3.violation('process_nick|announcement-condition', 'the announcement is filtered or sent for refused changes', loc=cx.loc(e.node))
        if ins and e.seq < ins[0][0].seq:
            r3.violation('process_nick|announcement-before-insert', 'the announcement happens before the user is back in the registry: the '
                         'user itself is not told', loc=cx.loc(e.node))
        r3.instance('attributed to the source captured before the rename')
        n = e.node
        a2 = (ir.base_var(n['args'][2]) if n.get('k') == 'Call' and len(n['args']) > 2 else None) or {}
        def _binds_of(v_):
            # variable ids are local to a body: match the name as well
            return [b for b in w.events if b.kind == 'bind' and v_.get('k') == 'Var' and b.data['var'] == v_.get('v')
                    and b.data.get('name') == v_.get('n')]
        binds = _binds_of(a2)
        # through helper parameters back to the `let` that captured the value
        for _hop in range(4):
            if len(binds) == 1 and binds[0].data.get('arg_node') is not None:
                a2 = ir.base_var(binds[0].data['arg_node']) or {}
                binds = _binds_of(a2)
            else:
                break
        okb = (s['source'] == CONN_SOURCE and len(binds) == 1 and setn and binds[0].seq < setn[0].seq)
        if not okb:
            r3.violation('process_nick|announcement-source', 'the NICK announcement is not attributed to the old nick!user@host (captured '
                         'before the connection state is renamed)', loc=cx.loc(e.node))

    # ---------------------------------------------------------------- R15.4
    r4 = cx.rule('R15.4', 'counters untouched', floor=1, kind='census')
    r4.instance('no counter effect in process_nick')
    for e, x in effs:
        if path_of(x['place'])[-1:] in (['operators_count'], ['invisible_users_count'], ['max_users_count']):
            r4.violation('process_nick|counter|%s' % path_of(x['place'])[-1], 'a nick change alters %s' % path_of(x['place'])[-1], loc=cx.loc(e.node))
