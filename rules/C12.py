"""C12 — Secret channels and invisible users stay hidden from outsiders.

Two-world emission equivalence (DESIGN.md analysis F): for every query form of LIST, NAMES,
WHO and WHOIS the set of reply kinds reachable when the hidden object exists (and the
requester is an outsider) must equal the set reachable when it does not exist.  A reply site
is reachable in a world iff its path condition is satisfiable under the world's assignment.
"""
from .common import *  # noqa: F401,F403


def P(n):
    return ('param', n)


def world(assign):
    return And(*[(Atom(a) if v else Not(Atom(a))) for a, v in assign])


def reach(evs, wf):
    """variants of reply events reachable under world formula wf"""
    out = {}
    for e, r in evs:
        if sat(And(e.pc, wf)) is not None:
            out.setdefault(r['variant'] or 'text', []).append(e)
    return out


def hidden_channel(ch_key):
    ch = chan(ch_key)
    return [(('is', ('get', CHANNELS, ch_key), 'Some'), True), (('flag', field(ch, 'modes', 'secret')), True),
            (('is', ('get', field(ch, 'users'), CONN_NICK), 'Some'), False)]


def absent_channel(ch_key):
    return [(('is', ('get', CHANNELS, ch_key), 'Some'), False)]


def check(cx):
    ck = cx.check
    ck.decides += [
        'R12.1 LIST/NAMES/WHO with an explicit channel name: reply kinds reachable for a secret channel the requester is not on == reply kinds reachable for a non-existent channel; channel-iterating forms emit nothing per hidden channel',
        'R12.2 WHO/NAMES/WHOIS: no per-user reply or name entry is reachable for an invisible user sharing no channel with the requester (same as for a non-existent user)',
        'R12.3 WHOIS channel lists omit secret channels the requester is not on',
        'R12.4 an outsider cannot speak into a secret channel: every channel fan-out of PRIVMSG/NOTICE under +s entails that the sender is a member',
    ]
    ck.does_not_decide += ['numerics of PRIVMSG/MODE/TOPIC that distinguish secret from absent channels (outside the four commands of the statement)',
                           'timing side channels']
    prog = cx.prog
    r1 = cx.rule('R12.1', 'hidden channel == absent channel', floor=6, kind='two-world')
    r2 = cx.rule('R12.2', 'hidden user == absent user', floor=5, kind='two-world')
    r3 = cx.rule('R12.3', 'no secret channel in WHOIS', floor=1, kind='required-guard')

    def compare(rule, key, form, evs, H, A, fn, what):
        rh = reach(evs, world(H))
        ra = reach(evs, world(A))
        rule.instance('%s: hidden world -> {%s}; absent world -> {%s}' % (form, ','.join(sorted(rh)), ','.join(sorted(ra))))
        for v in sorted(set(rh) - set(ra)):
            rule.violation('%s|leak|%s' % (key, v), '%s: %s is sent for %s but not when it does not exist: its existence/content leaks'
                           % (form, v, what), loc=cx.loc(rh[v][0].node))
        for v in sorted(set(ra) - set(rh)):
            rule.violation('%s|differs|%s' % (key, v), '%s: %s is sent when the object does not exist but not for %s: the answers differ'
                           % (form, v, what), loc=cx.loc(ra[v][0].node))

    def none_reachable(rule, key, form, evs, H, what, kind='reply'):
        rule.instance('%s: %d per-element sites unreachable for %s' % (form, len(evs), what))
        for e, r in evs:
            if sat(And(e.pc, world(H))) is not None:
                v = (r.get('variant') if isinstance(r, dict) else None) or kind
                rule.violation('%s|leak|%s' % (key, v), '%s: %s can be emitted for %s' % (form, v, what), loc=cx.loc(e.node))

    def in_loop_over(e, coll_pred):
        return any(l[2] is not None and coll_pred(l[2]) for l in e.loops)

    # ================================================================= NAMES
    fnm = cx.fn('process_names')
    CHS = P('channels')
    wn = cx.walk(fnm, args=[SELF, CONN, CHS], inline=('send_names_from_channel',), key='c12')
    reps = replies(wn)
    q = ('elem', CHS)
    explicit = [(e, r) for e, r in reps if in_loop_over(e, lambda c: c == CHS)]
    compare(r1, 'process_names|explicit', 'NAMES <channel>', explicit, hidden_channel(q), absent_channel(q), fnm,
            'a secret channel the requester is not on')
    allq = ('elem', ('keys', CHANNELS))
    per_ch = [(e, r) for e, r in reps if in_loop_over(e, lambda c: c in (('hashmap', CHANNELS), CHANNELS, ('keys', CHANNELS)))]
    none_reachable(r1, 'process_names|all', 'NAMES (no argument)', per_ch, hidden_channel(allq), 'a secret channel the requester is not on')
    # name entries of invisible users
    pushes = [(e, {'variant': 'name entry'}) for e in wn.events if e.kind == 'local_mut' and e.data['method'] == 'push']
    r2.instance('NAMES name entries: %d' % len(pushes))
    if not pushes:
        raise AnchorLost('NAMES name collection not found')
    for e, r in pushes:
        inv = [a for a in atoms(e.pc) if a[0] == 'flag' and path_of(a[1])[-2:] == ['modes', 'invisible']]
        memb = [a for a in atoms(e.pc) if a[0] == 'is' and a[1][0] == 'get' and a[1][2] == CONN_NICK and path_of(a[1][1])[-1:] == ['users']]
        if not inv or not memb:
            r2.violation('process_names|leak|name-entry', 'NAMES lists members without looking at +i / own membership', loc=cx.loc(e.node))
            continue
        H = [(a, True) for a in inv] + [(a, False) for a in memb]
        if sat(And(e.pc, world(H))) is not None:
            r2.violation('process_names|leak|name-entry', 'NAMES reveals an invisible user to a requester who is not on the channel', loc=cx.loc(e.node))

    # ================================================================= LIST
    fl = cx.fn('process_list')
    wl = cx.walk(fl, args=[SELF, CONN, CHS, P('server')], key='c12')
    lreps = replies(wl)
    explicit = [(e, r) for e, r in lreps if in_loop_over(e, lambda c: mentions(c, CHS))]
    compare(r1, 'process_list|explicit', 'LIST <channel>', explicit, hidden_channel(q), absent_channel(q), fl, 'a secret channel')
    per_ch = [(e, r) for e, r in lreps if in_loop_over(e, lambda c: mentions(c, CHANNELS) and not mentions(c, CHS))]
    if not explicit or not per_ch:
        raise AnchorLost('LIST loops not found (explicit=%d, all=%d)' % (len(explicit), len(per_ch)))
    none_reachable(r1, 'process_list|all', 'LIST (no argument)', per_ch, hidden_channel(allq)[:2], 'a secret channel')
    none_reachable(r1, 'process_list|explicit-secret', 'LIST <channel> (secret)', explicit, hidden_channel(q)[:2], 'a secret channel')

    # ================================================================= WHO
    fw = cx.fn('process_who')
    MASK = P('mask')
    ww = cx.walk(fw, args=[SELF, CONN, MASK], inline=('send_who_info',), key='c12')
    wreps = replies(ww)
    ischan = None
    isnick = None
    for e, r in wreps:
        for a in atoms(e.pc):
            if a[0] == 'is' and a[2] == 'Ok' and a[1][0] == 'call' and a[1][2:] == (MASK,):
                if a[1][1].endswith('validate_channel'):
                    ischan = a
                if a[1][1].endswith('validate_username'):
                    isnick = a
    # "has a wildcard": `mask.contains('*')` / `mask.contains(|c| c == '*' || ..)` / `mask.chars().any(..)` - any test of the mask's
    # characters in front of the three query forms
    wild = [a for e, r in wreps for a in atoms(e.pc)
            if (a[0] == 'is' and a[1][0] == 'get' and a[1][1] == MASK and a[1][2][0] == 'lit')
            or (a[0] == 'is' and a[1][0] == 'find' and a[1][1] == MASK) or (a[0] == 'any' and a[1] == MASK)]
    if ischan is None or isnick is None or not wild:
        raise AnchorLost('WHO query-form discrimination not found')
    nowild = [(a, False) for a in set(wild)]
    chan_form = nowild + [(ischan, True)]
    compare(r1, 'process_who|channel', 'WHO <channel>', wreps, chan_form + hidden_channel(MASK), chan_form + absent_channel(MASK), fw,
            'a secret channel the requester is not on')

    # the channel column of every 352 line: "*", or a channel that is not secret / that the requester is on
    r1.instance('WHO 352 channel column never names a secret channel the requester is not on')
    for e, r in wreps:
        if r['variant'] != 'RplWhoReply352':
            continue
        for c_, leaf in term_cases(r['fields'].get('channel')):
            ctx = And(e.pc, c_)
            if sat(ctx) is None or leaf == ('lit', '*'):
                continue
            # which channel is named: the mask itself (WHO #chan) or a name drawn from somewhere else
            names = [leaf] + [t for t in subterms(leaf) if isinstance(t, tuple) and t and t[0] in ('elem', 'param')]
            ok_ = False
            for nm_ in names:
                ch_ = chan(nm_)
                vis = Or(Not(flag(field(ch_, 'modes', 'secret'))), has(field(ch_, 'users'), CONN_NICK))
                if entails(ctx, vis)[0]:
                    ok_ = True
                    break
            if not ok_:
                r1.violation('process_who|352-channel-column|%s' % show_term(leaf)[:40], 'a WHO reply names the channel %s although it may be secret and '
                             'the requester not on it' % show_term(leaf)[:60], loc=cx.loc(e.node))

    def hidden_user(u, evs):
        inv = ('flag', field(user(u), 'modes', 'invisible'))
        dis = [a for e, r in evs for a in atoms(e.pc) if a[0] == 'disjoint']
        return [(('is', ('get', USERS, u), 'Some'), True), (inv, True)] + [(a, True) for a in set(dis)]

    nick_form = nowild + [(ischan, False), (isnick, True)]
    compare(r2, 'process_who|nick', 'WHO <nick>', wreps, nick_form + hidden_user(MASK, wreps),
            nick_form + [(('is', ('get', USERS, MASK), 'Some'), False)], fw, 'an invisible user sharing no channel')
    uk = ('elem', ('keys', USERS))
    per_user = [(e, r) for e, r in wreps if in_loop_over(e, lambda c: c in (USERS, ('hashmap', USERS)) or
                                                       (isinstance(c, tuple) and c[:1] == ('mapped',) and mentions(c[1], USERS)))]
    if not per_user:
        raise AnchorLost('WHO wildcard loop not found')
    none_reachable(r2, 'process_who|wildcard', 'WHO <wildcard mask>', per_user, hidden_user(uk, per_user)[1:], 'an invisible user sharing no channel')
    mk = ('elem', ('keys', field(chan(MASK), 'users')))
    per_member = [(e, r) for e, r in wreps if in_loop_over(e, lambda c: mentions(c, field(chan(MASK), 'users')))]
    if per_member:
        none_reachable(r2, 'process_who|channel-members', 'WHO <channel> member rows', per_member, hidden_user(mk, per_member)[1:],
                       'an invisible user sharing no channel')

    # ================================================================= WHOIS
    fi = cx.fn('process_whois')
    NM = P('nickmasks')
    wi = cx.walk(fi, args=[SELF, CONN, P('target'), NM], key='c12')
    ireps = replies(wi)
    per_nick = [(e, r) for e, r in ireps if in_loop_over(e, lambda c: c[0] == 'local')]
    if len(per_nick) < 5:
        raise AnchorLost('WHOIS per-nick replies not found')
    nk = None
    for e, r in per_nick:
        for a in atoms(e.pc):
            if a[0] == 'flag' and path_of(a[1])[-2:] == ['modes', 'invisible']:
                nk = a
    if nk is None:
        r2.violation('process_whois|leak|no-invisible-check', 'WHOIS does not look at +i at all', loc=fi)
    else:
        dis = set(a for e, r in per_nick for a in atoms(e.pc) if a[0] == 'disjoint')
        H = [(nk, True)] + [(a, True) for a in dis]
        none_reachable(r2, 'process_whois|per-nick', 'WHOIS <nick|mask>', per_nick, H, 'an invisible user sharing no channel')
    # 319 entries
    entries = [e for e in wi.events if e.kind == 'adt' and e.data['adt'].endswith('WhoIsChannelStruct')]
    r3.instance('WHOIS channel entries: %d' % len(entries))
    if not entries:
        raise AnchorLost('WHOIS channel entry construction not found')
    for e in entries:
        sec = [a for a in atoms(e.pc) if a[0] == 'flag' and path_of(a[1])[-2:] == ['modes', 'secret']]
        memb = [a for a in atoms(e.pc) if a[0] == 'is' and a[1][0] == 'get' and a[1][2] == CONN_NICK and path_of(a[1][1])[-1:] == ['users']]
        if not sec or sat(And(e.pc, *[Atom(a) for a in sec], *[Not(Atom(a)) for a in memb])) is not None:
            r3.violation('process_whois|leak|secret-channel-entry', 'WHOIS lists a secret channel among the user\'s channels', loc=cx.loc(e.node))


    # ---------------------------------------------------------------- R12.4 no speaking into a secret channel
    from .msg import model, V
    # "shares a channel" / "is on the channel" are read from User.channels and Channel.users: the two-world comparison above is about
    # the real membership only if both sides of the relation are written together by every way of joining and leaving
    r5 = cx.rule('R12.5', 'the membership relation the visibility tests read is kept from both sides (imported)', floor=1, kind='dependency')
    depends(cx, r5, 'C04', ('R4.1', 'R4.2'), 'User.channels and Channel.users are written together (one funnel for leaving)')

    r4 = cx.rule('R12.4', 'outsiders cannot speak into a secret channel', floor=1, kind='required-guard')
    M = model(cx)
    for e, snd, coll, setname, k in M.fanouts():
        if coll is None:
            continue
        f, unk = M.abstract(e.pc)
        r4.instance('fan-out over %s: secret => sender is a member' % (setname or 'members'))
        ok, m = entails(And(f, V('s')), V('member'))
        if not ok:
            r4.violation('process_privmsg_notice|outsider-speaks-into-secret|%s' % (setname or 'members'), 'a message from a non-member reaches %s '
                         'of a secret channel (%s)' % (setname or 'the members', model_str(m)), loc=cx.loc(e.node))
